//! Native probe: runs the REAL akd_core::utils::get_marker_versions (current /repo sources) on
//! triples read from stdin ("s n e" per line) and prints "ok past.. | future.." or "panic".
//! Used for translator validation of the MIR->SMT engine and for replaying its counterexamples.
use std::io::BufRead;

fn main() {
    std::panic::set_hook(Box::new(|_| {}));
    let stdin = std::io::stdin();
    for line in stdin.lock().lines() {
        let line = line.unwrap();
        let v: Vec<u64> = line.split_whitespace().filter_map(|x| x.parse().ok()).collect();
        if v.len() != 3 {
            continue;
        }
        let r = std::panic::catch_unwind(|| akd_core::utils::get_marker_versions(v[0], v[1], v[2]));
        match r {
            Ok((p, f)) => {
                let ps: Vec<String> = p.iter().map(|x| x.to_string()).collect();
                let fs: Vec<String> = f.iter().map(|x| x.to_string()).collect();
                println!("ok {} | {}", ps.join(" "), fs.join(" "));
            }
            Err(_) => println!("panic"),
        }
    }
}
