#[cfg(kani)]
pub fn format_stub(_args: core::fmt::Arguments<'_>) -> String {
    String::new()
}

#[cfg(kani)]
pub mod sym {
    use akd::tree_node::{TreeNode, TreeNodeType};
    use akd::{AzksValue, NodeLabel};

    pub fn label() -> NodeLabel {
        NodeLabel::new(kani::any(), kani::any())
    }
    pub fn opt_label() -> Option<NodeLabel> {
        if kani::any() {
            Some(label())
        } else {
            None
        }
    }
    pub fn node_type() -> TreeNodeType {
        let k: u8 = kani::any();
        match k % 3 {
            0 => TreeNodeType::Leaf,
            1 => TreeNodeType::Root,
            _ => TreeNodeType::Interior,
        }
    }
    /// an arbitrary stored tree node (every field symbolic) for the given label
    pub fn tree_node(label: NodeLabel) -> TreeNode {
        TreeNode {
            label,
            last_epoch: kani::any(),
            min_descendant_epoch: kani::any(),
            parent: self::label(),
            node_type: node_type(),
            left_child: opt_label(),
            right_child: opt_label(),
            hash: AzksValue(kani::any()),
        }
    }
    pub fn words(v: &[u8; 32]) -> [u64; 4] {
        let w = |o: usize| -> u64 {
            ((v[o] as u64) << 56) | ((v[o + 1] as u64) << 48) | ((v[o + 2] as u64) << 40) | ((v[o + 3] as u64) << 32)
                | ((v[o + 4] as u64) << 24) | ((v[o + 5] as u64) << 16) | ((v[o + 6] as u64) << 8) | (v[o + 7] as u64)
        };
        [w(0), w(8), w(16), w(24)]
    }
    pub fn same_label(a: &NodeLabel, b: &NodeLabel) -> bool {
        a.label_len == b.label_len && words(&a.label_val) == words(&b.label_val)
    }
    pub fn same_opt_label(a: &Option<NodeLabel>, b: &Option<NodeLabel>) -> bool {
        match (a, b) {
            (None, None) => true,
            (Some(x), Some(y)) => same_label(x, y),
            _ => false,
        }
    }
    /// field-wise equality without memcmp loops
    pub fn same_node(a: &TreeNode, b: &TreeNode) -> bool {
        same_label(&a.label, &b.label)
            && a.last_epoch == b.last_epoch
            && a.min_descendant_epoch == b.min_descendant_epoch
            && same_label(&a.parent, &b.parent)
            && (a.node_type as u8) == (b.node_type as u8)
            && same_opt_label(&a.left_child, &b.left_child)
            && same_opt_label(&a.right_child, &b.right_child)
            && words(&a.hash.0) == words(&b.hash.0)
    }
}
