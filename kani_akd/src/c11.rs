//! C11 (kernels): (1) the documented write shift composed with the real reader selection keeps
//! the previous epoch intact; (2) the epoch record is committed strictly after every other record.
#![cfg(kani)]
use crate::util::sym::*;
use akd::storage::types::{DbRecord, ValueState};
use akd::tree_node::{TreeNode, TreeNodeWithPreviousValue};
use akd::verif_hooks::{determine_node_to_get, transaction_priority};
use akd::{AkdLabel, AkdValue};

/// Restatement of `TreeNode::write_to_storage` (akd/src/tree_node.rs): the record written for a
/// node updated in epoch e keeps, as `previous_node`, the node as of epoch e-1 (none if new).
fn shift(stored: &Option<TreeNodeWithPreviousValue>, new_node: &TreeNode) -> TreeNodeWithPreviousValue {
    let target = if new_node.last_epoch > 0 { new_node.last_epoch - 1 } else { 0 };
    let previous = match stored {
        None => None,
        Some(rec) => match determine_node_to_get(rec, target) {
            Ok(Some(p)) => Some(p),
            _ => None,
        },
    };
    TreeNodeWithPreviousValue { label: new_node.label, latest_node: new_node.clone(), previous_node: previous }
}

/// A reader pinned at epoch E sees the same node before and after the node is rewritten (once or
/// twice) for epoch E+1; a node created in E+1 is NotFound at E.
#[kani::proof]
#[kani::unwind(34)]
#[kani::stub(alloc::fmt::format, crate::util::format_stub)]
fn c11_partial_write_keeps_previous_epoch() {
    let l = label();
    let e: u64 = kani::any();
    kani::assume(e < u64::MAX - 1);
    // the stored record as of epoch E: well-formed = nothing in it is newer than E, and the
    // previous node (if any) is older than the latest
    let exists: bool = kani::any();
    let latest = tree_node(l);
    let has_prev: bool = kani::any();
    let prev = tree_node(l);
    kani::assume(latest.last_epoch <= e);
    kani::assume(!has_prev || prev.last_epoch < latest.last_epoch);
    let stored = if exists {
        Some(TreeNodeWithPreviousValue { label: l, latest_node: latest.clone(), previous_node: if has_prev { Some(prev.clone()) } else { None } })
    } else {
        None
    };
    let before = match &stored {
        Some(rec) => determine_node_to_get(rec, e),
        None => Ok(None),
    };
    // the publish of epoch E+1 writes the node (arbitrary new content), possibly twice
    let mut n1 = tree_node(l);
    n1.last_epoch = e + 1;
    let w1 = shift(&stored, &n1);
    let after1 = determine_node_to_get(&w1, e);
    let mut n2 = tree_node(l);
    n2.last_epoch = e + 1;
    let w2 = shift(&Some(w1.clone()), &n2);
    let after2 = determine_node_to_get(&w2, e);
    let same = |a: &Result<Option<TreeNode>, ()>, b: &Result<Option<TreeNode>, ()>| match (a, b) {
        (Ok(None), Ok(None)) => true,
        (Ok(Some(x)), Ok(Some(y))) => same_node(x, y),
        _ => false,
    };
    assert!(same(&before, &after1), "reader at E changed its view after the node was written for E+1");
    assert!(same(&before, &after2), "reader at E changed its view after the node was written twice for E+1");
    if !exists {
        assert!(matches!(after1, Ok(None)));
    }
    // and a reader at E+1 sees the new content
    match determine_node_to_get(&w2, e + 1) {
        Ok(Some(x)) => assert!(same_node(&x, &n2)),
        _ => assert!(false),
    }
    kani::cover!(exists && has_prev);
    kani::cover!(!exists);
    core::mem::forget((before, after1, after2, w1, w2, stored));
}

/// The epoch record sorts strictly after tree-node and value-state records in a commit.
#[kani::proof]
#[kani::unwind(34)]
fn c11_epoch_record_written_last() {
    let azks = DbRecord::Azks(DbRecord::build_azks(kani::any(), kani::any()));
    let l = label();
    let node = DbRecord::TreeNode(TreeNodeWithPreviousValue { label: l, latest_node: tree_node(l), previous_node: if kani::any() { Some(tree_node(l)) } else { None } });
    let vs = DbRecord::ValueState(ValueState { value: AkdValue(Vec::new()), version: kani::any(), label: label(), epoch: kani::any(), username: AkdLabel(Vec::new()) });
    let pa = transaction_priority(&azks);
    assert!(pa > transaction_priority(&node));
    assert!(pa > transaction_priority(&vs));
    kani::cover!(pa == 2);
    core::mem::forget((azks, node, vs));
}

include!("playback_c11.rs");
