//! Kani harnesses over pure decision kernels of the real `akd` crate, reached through the
//! `--cfg facebook_akd_verif` hooks (akd::verif_hooks). Nothing behind StorageManager is called.
#![allow(dead_code)]
#![allow(clippy::all)]

pub mod util;
pub mod c13;
pub mod c11;
pub mod c15;
pub mod c17s;
