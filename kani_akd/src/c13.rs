//! C13 (node-selection kernel): `TreeNodeWithPreviousValue::determine_node_to_get` is the single
//! function through which every reader turns a stored record into "the node as of epoch t".
#![cfg(kani)]
use crate::util::sym::*;
use akd::tree_node::TreeNodeWithPreviousValue;
use akd::verif_hooks::determine_node_to_get;

/// For every stored record and every target epoch: the node returned was last written at or
/// before the target epoch, or the answer is NotFound; the latest node is returned whenever it
/// is old enough.
#[kani::proof]
#[kani::unwind(34)]
#[kani::stub(alloc::fmt::format, crate::util::format_stub)]
fn c13_select_never_newer_than_target() {
    let l = label();
    let latest = tree_node(l);
    let has_prev: bool = kani::any();
    let prev = tree_node(l);
    let rec = TreeNodeWithPreviousValue { label: l, latest_node: latest.clone(), previous_node: if has_prev { Some(prev.clone()) } else { None } };
    let t: u64 = kani::any();
    let r = determine_node_to_get(&rec, t);
    match &r {
        Ok(Some(n)) => {
            assert!(n.last_epoch <= t, "node selected for epoch t was written after epoch t");
            if latest.last_epoch <= t {
                assert!(same_node(n, &latest));
            } else {
                assert!(has_prev && same_node(n, &prev));
            }
        }
        Ok(None) => {
            // NotFound is allowed only when nothing old enough is stored
            assert!(latest.last_epoch > t);
            assert!(!has_prev || prev.last_epoch > t);
        }
        Err(()) => assert!(false, "unexpected error kind"),
    }
    kani::cover!(matches!(r, Ok(Some(_))) && latest.last_epoch > t);
    kani::cover!(matches!(r, Ok(None)));
    core::mem::forget(r);
    core::mem::forget(rec);
}

include!("playback_c13.rs");
