//! C13 (node-selection kernel): `TreeNodeWithPreviousValue::determine_node_to_get` is the single
//! function through which every reader turns a stored record into "the node as of epoch t".
#![cfg(kani)]
use crate::util::sym::*;
use akd::tree_node::TreeNodeWithPreviousValue;
use akd::verif_hooks::determine_node_to_get;

fn any_record() -> (akd::NodeLabel, akd::tree_node::TreeNode, bool, akd::tree_node::TreeNode, TreeNodeWithPreviousValue) {
    let l = label();
    let latest = tree_node(l);
    let has_prev: bool = kani::any();
    let prev = tree_node(l);
    let rec = TreeNodeWithPreviousValue { label: l, latest_node: latest.clone(), previous_node: if has_prev { Some(prev.clone()) } else { None } };
    (l, latest, has_prev, prev, rec)
}

/// (a) For every stored record and every target epoch: the node returned was last written at or
/// before the target epoch (or the answer is NotFound) -- no answer from a later epoch.
#[kani::proof]
#[kani::unwind(34)]
#[kani::stub(alloc::fmt::format, crate::util::format_stub)]
fn c13_select_never_newer_than_target() {
    let (_l, latest, _has_prev, _prev, rec) = any_record();
    let t: u64 = kani::any();
    let r = determine_node_to_get(&rec, t);
    match &r {
        Ok(Some(n)) => assert!(n.last_epoch <= t, "node selected for epoch t was written after epoch t"),
        Ok(None) => {}
        Err(()) => assert!(false, "unexpected error kind"),
    }
    kani::cover!(matches!(r, Ok(Some(_))) && latest.last_epoch > t);
    kani::cover!(matches!(r, Ok(None)));
    core::mem::forget(r);
    core::mem::forget(rec);
}

/// (b) The node returned is exactly the stored latest node when that is old enough, otherwise
/// exactly the stored previous node (all fields).
#[kani::proof]
#[kani::unwind(34)]
#[kani::stub(alloc::fmt::format, crate::util::format_stub)]
fn c13_select_returns_stored_node_unchanged() {
    let (_l, latest, has_prev, prev, rec) = any_record();
    let t: u64 = kani::any();
    let r = determine_node_to_get(&rec, t);
    if let Ok(Some(n)) = &r {
        if latest.last_epoch <= t {
            assert!(same_node(n, &latest), "latest node is old enough but something else was returned");
        } else {
            assert!(has_prev && same_node(n, &prev), "a node other than the stored previous node was returned");
        }
    }
    kani::cover!(matches!(r, Ok(Some(_))) && latest.last_epoch <= t);
    kani::cover!(matches!(r, Ok(Some(_))) && latest.last_epoch > t);
    core::mem::forget(r);
    core::mem::forget(rec);
}

/// (c) NotFound is returned only when nothing old enough is stored (availability: a reader at the
/// current or the previous epoch is always served).
#[kani::proof]
#[kani::unwind(34)]
#[kani::stub(alloc::fmt::format, crate::util::format_stub)]
fn c13_select_notfound_only_when_nothing_qualifies() {
    let (_l, latest, has_prev, prev, rec) = any_record();
    let t: u64 = kani::any();
    let r = determine_node_to_get(&rec, t);
    if let Ok(None) = &r {
        assert!(latest.last_epoch > t, "NotFound although the latest node is old enough");
        assert!(!has_prev || prev.last_epoch > t, "NotFound although the previous node is old enough");
    }
    kani::cover!(matches!(r, Ok(None)) && has_prev);
    kani::cover!(matches!(r, Ok(None)) && !has_prev);
    core::mem::forget(r);
    core::mem::forget(rec);
}

include!("playback_c13.rs");
