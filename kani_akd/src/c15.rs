//! C15 (kernels): `Transaction::find_appropriate_item` and
//! `StorageManager::compare_db_and_transaction_records`, composed exactly as
//! `StorageManager::get_user_state` composes them, equal the specification's pick over
//! "committed states overridden by pending states of the same epoch".
#![cfg(kani)]
use akd::storage::types::{ValueState, ValueStateRetrievalFlag as Flag};
use akd::verif_hooks::{compare_db_and_transaction_records, compare_db_version_and_transaction_record, find_appropriate_item};
use akd::{AkdLabel, AkdValue, NodeLabel};

#[derive(Clone, Copy, PartialEq, Eq)]
struct St {
    epoch: u64,
    version: u64,
    /// distinguishes a committed record from the pending record that overrides it
    pending: bool,
}

fn mk(s: St) -> ValueState {
    ValueState {
        value: AkdValue(if s.pending { vec![1u8] } else { Vec::new() }),
        version: s.version,
        label: NodeLabel::new([0u8; 32], 0),
        epoch: s.epoch,
        username: AkdLabel(Vec::new()),
    }
}

fn st_of(v: &ValueState) -> St {
    St { epoch: v.epoch, version: v.version, pending: v.value.0.len() == 1 }
}

fn any_flag() -> Flag {
    let k: u8 = kani::any();
    let x: u64 = kani::any();
    match k % 5 {
        0 => Flag::SpecificVersion(x),
        1 => Flag::SpecificEpoch(x),
        2 => Flag::LeqEpoch(x),
        3 => Flag::MaxEpoch,
        _ => Flag::MinEpoch,
    }
}

/// the specification's pick over a list of states (any order)
fn spec_pick(items: &[Option<St>], flag: Flag) -> Option<St> {
    let mut best: Option<St> = None;
    let mut i = 0;
    while i < items.len() {
        if let Some(s) = items[i] {
            let better = match flag {
                Flag::SpecificVersion(v) => s.version == v,
                Flag::SpecificEpoch(e) => s.epoch == e,
                Flag::LeqEpoch(e) => s.epoch <= e && best.map_or(true, |b| s.epoch > b.epoch),
                Flag::MaxEpoch => best.map_or(true, |b| s.epoch > b.epoch),
                Flag::MinEpoch => best.map_or(true, |b| s.epoch < b.epoch),
            };
            if better {
                best = Some(s);
            }
        }
        i += 1;
    }
    best
}

const ND: usize = 3;
const NP: usize = 2;

/// well-formed data for one user: epochs strictly increase within D and within P, versions
/// increase with epochs across D and P, and a pending record for an epoch that is already
/// committed keeps that record's version (as tombstoning does)
fn any_states(np: usize) -> ([Option<St>; ND], [Option<St>; NP]) {
    let mut d = [None; ND];
    let mut p = [None; NP];
    let nd: usize = kani::any();
    kani::assume(nd <= ND && np <= NP);
    let mut i = 0;
    while i < ND {
        if i < nd {
            let s = St { epoch: kani::any(), version: kani::any(), pending: false };
            if i > 0 {
                let q: St = d[i - 1].unwrap();
                kani::assume(q.epoch < s.epoch && q.version < s.version);
            }
            d[i] = Some(s);
        }
        i += 1;
    }
    let mut i = 0;
    while i < NP {
        if i < np {
            let s = St { epoch: kani::any(), version: kani::any(), pending: true };
            if i > 0 {
                let q: St = p[i - 1].unwrap();
                kani::assume(q.epoch < s.epoch && q.version < s.version);
            }
            let mut j = 0;
            while j < ND {
                if let Some(c) = d[j] {
                    kani::assume((c.epoch < s.epoch) == (c.version < s.version));
                    kani::assume((c.epoch == s.epoch) == (c.version == s.version));
                }
                j += 1;
            }
            p[i] = Some(s);
        }
        i += 1;
    }
    (d, p)
}

#[kani::proof]
#[kani::unwind(6)]
fn c15_pending_pick_matches_spec() {
    // case split on the (concrete) number of pending states so that the Vec has a concrete length
    let chosen: usize = kani::any();
    kani::assume(chosen <= NP);
    let mut np = 0;
    while np <= NP {
        if chosen == np {
            let (_d, p) = any_states(np);
            let flag = any_flag();
            // the transaction log hands `find_appropriate_item` the user's pending states sorted by epoch
            let v: Vec<ValueState> = match np {
                0 => Vec::new(),
                1 => vec![mk(p[0].unwrap())],
                _ => vec![mk(p[0].unwrap()), mk(p[1].unwrap())],
            };
            let got = find_appropriate_item(v, flag).map(|x| st_of(&x));
            let want = spec_pick(&p, flag);
            assert!(got == want, "find_appropriate_item differs from the specified pick over the pending states");
            kani::cover!(got.is_some() && np == 2);
            kani::cover!(got.is_none() && np >= 1);
        }
        np += 1;
    }
}

#[kani::proof]
#[kani::unwind(6)]
fn c15_read_in_transaction_equals_read_after_commit() {
    let np: usize = kani::any();
    kani::assume(np <= NP);
    let (d, p) = any_states(np);
    let flag = any_flag();
    // after commit the database holds D overridden by P on equal epochs
    let mut merged: [Option<St>; ND + NP] = [None; ND + NP];
    let mut i = 0;
    while i < ND {
        if let Some(c) = d[i] {
            let overridden = (p[0].map_or(false, |s| s.epoch == c.epoch)) || (p[1].map_or(false, |s| s.epoch == c.epoch));
            if !overridden {
                merged[i] = Some(c);
            }
        }
        i += 1;
    }
    merged[ND] = p[0];
    merged[ND + 1] = p[1];
    let want = spec_pick(&merged, flag);
    // StorageManager::get_user_state: database pick, pending pick, then the comparison kernel
    let db = spec_pick(&d, flag);
    let tx = spec_pick(&p, flag);
    let got = match (tx, db) {
        (Some(t), Some(dbv)) => match compare_db_and_transaction_records(dbv.epoch, mk(t), flag) {
            Some(r) => Some(st_of(&r)),
            None => Some(dbv),
        },
        (Some(t), None) => Some(t),
        (None, dbv) => dbv,
    };
    assert!(got == want, "read inside the transaction differs from the read after commit");
    kani::cover!(tx.is_some() && db.is_some() && got == db);
    kani::cover!(tx.is_some() && db.is_some() && got == tx && tx != db);
}

/// The bulk query (`StorageManager::get_user_state_versions`) only knows the database pick's
/// (version, value): the database entry, the pending pick and the version arbiter combined as that
/// function combines them (C15.bulk_versions decides the wiring on the MIR) give the (version,
/// pending?) of the read after commit.
#[kani::proof]
#[kani::unwind(6)]
fn c15_bulk_read_in_transaction_equals_bulk_read_after_commit() {
    let np: usize = kani::any();
    kani::assume(np <= NP);
    let (d, p) = any_states(np);
    let flag = any_flag();
    let mut merged: [Option<St>; ND + NP] = [None; ND + NP];
    let mut i = 0;
    while i < ND {
        if let Some(c) = d[i] {
            let overridden = (p[0].map_or(false, |s| s.epoch == c.epoch)) || (p[1].map_or(false, |s| s.epoch == c.epoch));
            if !overridden {
                merged[i] = Some(c);
            }
        }
        i += 1;
    }
    merged[ND] = p[0];
    merged[ND + 1] = p[1];
    let want = spec_pick(&merged, flag).map(|s| (s.version, s.pending));
    let db = spec_pick(&d, flag);
    let tx = spec_pick(&p, flag);
    let got = match (tx, db) {
        (Some(t), Some(dbv)) => match compare_db_version_and_transaction_record(dbv.version, mk(t), flag) {
            Some(r) => Some((r.version, r.value.0.len() == 1)),
            None => Some((dbv.version, dbv.pending)),
        },
        (Some(t), None) => Some((t.version, t.pending)),
        (None, dbv) => dbv.map(|s| (s.version, s.pending)),
    };
    assert!(got == want, "bulk read inside the transaction differs from the bulk read after commit");
    let both = tx.is_some() && db.is_some();
    let kept_db = both && got == db.map(|s| (s.version, s.pending));
    let took_tx = both && got == tx.map(|s| (s.version, s.pending)) && tx != db;
    kani::cover!(kept_db);
    kani::cover!(took_tx);
}

include!("playback_c15.rs");
