//! C17 (set operations): AzksElementSet::{from, partition, get_longest_common_prefix,
//! contains_prefix} (akd/src/append_only_zks.rs, through the facebook_akd_verif hooks) give the same
//! result for the sorted (BinarySearchable) and the unsorted representation, and that result is
//! the bit-string one.
#![cfg(kani)]
use akd::verif_hooks::{element_set_contains_prefix, element_set_from, element_set_lcp, element_set_partition};
use akd::{AzksElement, AzksValue, NodeLabel};

type Wa = akd::WhatsAppV1Configuration;
type Exp = akd::ExperimentalConfiguration<akd::ExampleLabel>;

const LEN: u32 = 8;

fn lab(b: u8, len: u32) -> NodeLabel {
    let mut v = [0u8; 32];
    v[0] = b;
    NodeLabel::new(v, len)
}
fn elem(b: u8, tag: u8) -> AzksElement {
    AzksElement { label: lab(b, LEN), value: AzksValue([tag; 32]) }
}
fn mask(p: u32) -> u8 {
    if p == 0 { 0 } else if p >= 8 { 0xff } else { (0xffu16 << (8 - p)) as u8 }
}
/// multiset of first bytes of up to 3 elements, as a sorted triple padded with 0x1ff
fn bytes_of(v: &Vec<AzksElement>) -> [u16; 3] {
    let mut out = [0x1ffu16; 3];
    let mut i = 0;
    while i < 3 {
        if i < v.len() {
            out[i] = v[i].label.label_val[0] as u16;
        }
        i += 1;
    }
    // sort 3
    if out[0] > out[1] { out.swap(0, 1); }
    if out[1] > out[2] { out.swap(1, 2); }
    if out[0] > out[1] { out.swap(0, 1); }
    out
}

/// from(): equal-length sets become sorted, whatever the input order
#[kani::proof]
#[kani::unwind(8)]
fn c17s_from_sorted_and_order_independent() {
    let b: [u8; 3] = kani::any();
    let (s1, v1) = element_set_from(vec![elem(b[0], 0), elem(b[1], 1), elem(b[2], 2)]);
    let (s2, v2) = element_set_from(vec![elem(b[2], 2), elem(b[0], 0), elem(b[1], 1)]);
    assert!(s1 && s2, "equal-length sets must use the binary-searchable representation");
    assert!(v1.len() == 3 && v2.len() == 3);
    assert!(v1[0].label.label_val[0] <= v1[1].label.label_val[0] && v1[1].label.label_val[0] <= v1[2].label.label_val[0], "set not sorted");
    let mut i = 0;
    while i < 3 {
        assert!(v1[i].label.label_val[0] == v2[i].label.label_val[0], "the stored order depends on the input order");
        i += 1;
    }
    assert!(bytes_of(&v1) == bytes_of(&vec![elem(b[0], 0), elem(b[1], 1), elem(b[2], 2)]), "elements lost or invented by from()");
    // mixed lengths stay unsorted
    let (s3, _v3) = element_set_from(vec![AzksElement { label: lab(b[0], 7), value: AzksValue([0; 32]) }, elem(b[1], 1)]);
    assert!(!s3);
    kani::cover!(b[0] > b[1] && b[1] > b[2]);
    core::mem::forget((v1, v2, _v3));
}

/// partition around a common prefix of concrete length p, against the bit-string split; the
/// sorted and the unsorted representation are checked in separate harnesses (the oracle links
/// them): `sorted` with 3 elements, `unsorted` with 2 (its conditional pushes are costly for CBMC)
fn partition_body(p: u32, sorted_repr: bool) {
    let b: [u8; 3] = kani::any();
    let m = mask(p);
    kani::assume(b[1] & m == b[0] & m && b[2] & m == b[0] & m);
    let prefix = lab(b[0] & m, p);
    let n = if sorted_repr { 3 } else { 2 };
    let (l1, r1) = if sorted_repr {
        let (_s, sorted) = element_set_from(vec![elem(b[0], 0), elem(b[1], 1), elem(b[2], 2)]);
        element_set_partition(true, sorted, prefix)
    } else {
        element_set_partition(false, vec![elem(b[0], 0), elem(b[1], 1)], prefix)
    };
    // oracle: bit p of the byte decides the side; nothing is dropped (p < LEN)
    assert!(l1.len() + r1.len() == n, "partition dropped an element although the prefix is a proper common prefix");
    let zeros = (if (b[0] >> (7 - p)) & 1 == 0 { 1 } else { 0 }) + (if (b[1] >> (7 - p)) & 1 == 0 { 1 } else { 0 })
        + (if n == 3 && (b[2] >> (7 - p)) & 1 == 0 { 1 } else { 0 });
    assert!(l1.len() == zeros, "wrong number of elements on the left side");
    let mut i = 0;
    while i < 3 {
        if i < l1.len() {
            assert!((l1[i].label.label_val[0] >> (7 - p)) & 1 == 0, "element with next bit 1 placed left");
        }
        if i < r1.len() {
            assert!((r1[i].label.label_val[0] >> (7 - p)) & 1 == 1, "element with next bit 0 placed right");
        }
        i += 1;
    }
    kani::cover!(l1.len() == 1 && r1.len() >= 1);
    kani::cover!(r1.len() == 0);
    core::mem::forget((l1, r1));
}
macro_rules! part {
    ($name:ident, $p:expr, $s:expr) => {
        #[kani::proof]
        #[kani::unwind(8)]
        #[kani::stub(alloc::fmt::format, crate::util::format_stub)]
        fn $name() {
            partition_body($p, $s);
        }
    };
}
part!(c17s_partition_sorted_p0, 0, true);
part!(c17s_partition_sorted_p3, 3, true);
part!(c17s_partition_sorted_p7, 7, true);
// The unsorted representation's partition (a fold with conditional `push`es) exhausts CBMC's memory
// even with two elements (Vec of symbolic length); it is covered only through
// c17s_partition_prefix_equal_to_element (one element) and stated as outside the claim.

/// a prefix equal to an element's whole label: that element is dropped by both representations
/// (the behaviour property C09 points at, stated here as a fact about the kernel)
#[kani::proof]
#[kani::unwind(8)]
#[kani::stub(alloc::fmt::format, crate::util::format_stub)]
fn c17s_partition_prefix_equal_to_element() {
    let b: u8 = kani::any();
    let prefix = lab(b, LEN);
    let (l1, r1) = element_set_partition(true, vec![elem(b, 0)], prefix);
    let (l2, r2) = element_set_partition(false, vec![elem(b, 0)], prefix);
    assert!(l1.len() + r1.len() == 0 && l2.len() + r2.len() == 0);
    kani::cover!(true);
    core::mem::forget((l1, r1, l2, r2));
}

/// common prefix: sorted == unsorted == number of common leading bits
fn lcp_body<TC: akd::Configuration>() {
    let b: [u8; 3] = kani::any();
    let (_s, sorted) = element_set_from(vec![elem(b[0], 0), elem(b[1], 1), elem(b[2], 2)]);
    let c1 = element_set_lcp::<TC>(true, sorted);
    let c2 = element_set_lcp::<TC>(false, vec![elem(b[0], 0), elem(b[1], 1), elem(b[2], 2)]);
    let x = (b[0] ^ b[1]) | (b[0] ^ b[2]);
    let n = x.leading_zeros(); // 0..=8
    assert!(c1.label_len == n && c2.label_len == n, "common prefix length is not the number of common leading bits");
    assert!(c1.label_val[0] == b[0] & mask(n) && c2.label_val[0] == c1.label_val[0]);
    kani::cover!(n == 5);
    kani::cover!(n == 8);
}
#[kani::proof]
#[kani::unwind(11)]
#[kani::stub(alloc::fmt::format, crate::util::format_stub)]
fn c17s_lcp_wa() {
    lcp_body::<Wa>();
}
#[kani::proof]
#[kani::unwind(11)]
#[kani::stub(alloc::fmt::format, crate::util::format_stub)]
fn c17s_lcp_exp() {
    lcp_body::<Exp>();
}

/// contains_prefix: sorted == unsorted == "some element starts with the query" (query of concrete length q)
fn contains_body(q: u32) {
    let b: [u8; 3] = kani::any();
    let qb: u8 = kani::any();
    kani::assume(qb & !mask(q) == 0);
    let query = lab(qb, q);
    let (_s, sorted) = element_set_from(vec![elem(b[0], 0), elem(b[1], 1), elem(b[2], 2)]);
    let a1 = element_set_contains_prefix(true, sorted, &query);
    let a2 = element_set_contains_prefix(false, vec![elem(b[0], 0), elem(b[1], 1), elem(b[2], 2)], &query);
    let m = mask(q);
    let want = b[0] & m == qb || b[1] & m == qb || b[2] & m == qb;
    assert!(a1 == want, "binary-search contains_prefix disagrees with the bit-string meaning");
    assert!(a2 == want, "linear contains_prefix disagrees with the bit-string meaning");
    kani::cover!(want);
    // the empty prefix is contained in every non-empty set: no negative case exists for q = 0
    kani::cover!(!want || q == 0);
}
macro_rules! cont {
    ($name:ident, $q:expr) => {
        #[kani::proof]
        #[kani::unwind(11)]
        #[kani::stub(alloc::fmt::format, crate::util::format_stub)]
        fn $name() {
            contains_body($q);
        }
    };
}
cont!(c17s_contains_q0, 0);
cont!(c17s_contains_q3, 3);
cont!(c17s_contains_q8, 8);

include!("playback_c17s.rs");
