#!/bin/bash
# Build the framework from files on disk only (offline). Warms the Kani builds of the two harness
# crates (dependencies of /repo/akd_core and /repo/akd are compiled once into /verif/.build).
set -u
cd "$(dirname "$0")"
export CARGO_NET_OFFLINE=true
export RUSTFLAGS="--cfg facebook_akd_verif"
mkdir -p .build/logs evidence replays
for c in kani_core kani_akd; do
  (cd $c && cargo kani -Z stubbing --only-codegen --target-dir ../.build/$c > ../.build/logs/setup_$c.log 2>&1) &
done
wait
for c in kani_core kani_akd; do
  if ! grep -q "Finished\|Complete\|codegen" .build/logs/setup_$c.log; then
    echo "setup: build of $c did not finish, see .build/logs/setup_$c.log"; tail -5 .build/logs/setup_$c.log
  fi
done
python3 -c "import sys; sys.path.insert(0,'.'); from vk import registry; print('setup: registry ok,', len(registry.PROPERTIES), 'properties')"
