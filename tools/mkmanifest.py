import json, sys
sys.path.insert(0,'/verif')
NA = {
 "C01": "decided by Directory::publish + Azks::batch_insert_nodes (async, DashMap/HashMap/HashSet, tokio tasks, real VRF); Kani ICEs on dashmap/tokio and has no pure kernel to encode; the honest-tree oracle used by C05-C07 is a specification, not this code",
 "C02": "server-side proof assembly and storage queries are async StorageManager code (unreachable for Kani: ICE on dashmap/tokio::sync::RwLock, async_trait vtables); the solver-reachable ingredient (server/verifier marker agreement) is discharged under C08",
 "C03": "same as C02: key_history runs on StorageManager/AsyncInMemoryDatabase; the marker arithmetic shared by server and verifier is decided under C08",
 "C04": "append-only proof walk and auditor both run on the async storage layer (Azks::get_append_only_proof, audit_verify rebuilding trees on the DashMap-backed in-memory database)",
 "C09": "audit_verify rebuilds trees through async Azks insertion on the in-memory database; unreachable. The partition-drop behaviour it depends on is a kernel fact that this family could state, but the auditor's verdict itself cannot be decided",
 "C12": "quantifies over schedules of concurrent publishes; Kani does not model concurrency and CBMC's thread support does not apply to tokio tasks",
 "C14": "quantifies over tokio task parallelism, cache timing, cargo feature matrix and process restarts; none is expressible as a bounded symbolic query over this code",
 "C18": "the subject is the ECVRF itself (curve25519 field arithmetic, SHA-512): not bit-blastable; the verifiers are checked against an ideal VRF instead (C06/C07)",
 "C20": "tombstone_value_states and everything it could affect is async storage code; the verifier-side tombstone clauses are decided under C07",
}
TEXT = {
 "C16": ("Symbolic execution of the rustc MIR of the storage manager's own read / write paths around the object cache (set, batch_set, get, get_from_cache_only, flush_cache, and the transaction commit), with the cache, the transaction log and the database as event sources: a record the database rejects is never left in the cache, reads consult log, cache and database in that order and cache exactly what the database returned, a flush reaches the cache. Kernel-level claim: the cache's own behaviour (expiry, eviction, timing) is not decided. The defect F-C16 (fixed) - rejected writes stayed readable through the manager - was found by it.",
         "own MIR path walker (vk/mirsmt/corowalk.py, cachew.py, commitw.py) + z3; callees opaque; counterexamples confirmed by native_cache (real StorageManager with cache over a database that rejects writes); TimedCache internals, batch_get and operation sequences not covered"),
 "C10": ("Symbolic execution of the rustc MIR of the commit step of a publish (the async StorageManager::commit_transaction, walked as a coroutine with the transaction log, the object cache and the database as event sources) and of the transaction log's begin / commit / rollback: on every path the log is drained first (no transaction left open), a commit whose database write fails as a whole leaves nothing of itself in the object cache and returns the error, and exactly the logged records are written. The same walker decides Directory::publish's own control flow: no transaction left open on any returning path, an error means 'not committed' (nothing fallible after a successful commit), nothing written outside the transaction. Control-flow-level claim; the defects F-C10 (a failed commit stayed in the cache) and F-C10b (an error returned after the commit), both fixed, were found by it.",
         "own MIR path walker (vk/mirsmt/corowalk.py, commitw.py, txn.py) + z3; callees opaque; counterexamples confirmed by native_commitfail (real Directory over a database that refuses the commit write, with and without cache); what the callees (tree insertion, database) do under a failing read is not covered"),
 "C13": ("Two solver-decided facts about the real code. (1) Bounded model checking (Kani/CBMC over the compiled akd crate) of the single node-selection function every reader uses: for ALL stored records and ALL target epochs the selected node is never newer than the target (or NotFound) - the kernel whose defect (F-C13, fixed) let a lagging instance return a root hash labelled with the wrong epoch. (2) Data-abstracted model checking of the request coroutines: the control-flow graphs of all async bodies reachable from get_epoch_hash / lookup / batch_lookup / key_history / audit are extracted from the rustc MIR of /repo and z3's fixedpoint engine decides that no path reads the epoch record twice (the defect F-C13b, fixed, was such a path: a history answer stitched from two epochs). Interleavings themselves are outside the claim.",
         'Kani 0.68 / CBMC 6.11 (cadical); z3 fixedpoint (Datalog) over MIR CFGs, every branch nondeterministic (over-approximation; counterexamples confirmed by the native schedule search native_stitch); poller, cache flush timing and concurrent publishes as such not covered'),
 "C11": ("Bounded model checking of the two kernels that make a partially written commit invisible: the real reader selection composed with a restatement of the writer's record shift (all records, all contents), and the commit ordering priority (epoch record last).",
         "Kani/CBMC; write side is a five-line restatement of TreeNode::write_to_storage; crash-point enumeration over a real publish is outside the claim"),
 "C15": ("Bounded model checking of the transaction read kernels (find_appropriate_item, compare_db_and_transaction_records, compare_db_version_and_transaction_record) composed exactly as StorageManager::get_user_state and ::get_user_state_versions compose them, against the specification 'committed states overridden by pending states of the same epoch', for all well-formed data within the stated sizes and all five retrieval flags; symbolic execution of the coroutine MIR of the bulk query get_user_state_versions with database, transaction log, answer map and arbiter as events: the log is consulted exactly when a transaction is open, every entry written is (version, value) of one pending record, the arbiter gets the database entry's version (the defect F-C15, fixed - epoch and version confused in three places - was found by it); the same walker decides that the real bodies of get_user_state and Transaction::get_users_states wire database pick, pending pick and arbiter the way the Kani kernels assume; plus symbolic execution of the MIR of Transaction::{begin,commit,rollback}_transaction over an abstract state (symbolic open flag, arbitrary pending multiset): begin refused while open, refused commit/rollback change nothing, commit returns every pending record once sorted by transaction priority and empties/closes the log, rollback empties/closes it.",
         "Kani/CBMC; database pick modelled by the specification's pick; MIR walkers with container/iterator models (vk/mirsmt/txn.py, bulkw.py), counterexamples confirmed by native_txn / native_bulk on the real Transaction and StorageManager; the DashMap scans behind Transaction::get_user_state / get_users_data, get_user_data (all states) and the get / batch_get read paths (C16's walker) are not covered here"),
 "C17": ("Bounded model checking of NodeLabel operations against an independent bit-string oracle: loop-free operations for ALL 32-byte values and ALL lengths 0..=256; is_prefix_of and get_longest_common_prefix for all bit patterns up to the stated symbolic length bound, both shipped configurations.",
         "Kani/CBMC; alloc::fmt::format stubbed (constant message); symbolic-length loops beyond the stated widths are outside the claim"),
 "C06": ("Bounded model checking of the real lookup_verify (and the base.rs helpers it calls) with EVERY field of the LookupProof symbolic, against an honest directory state with symbolic values, nonces and epochs: an accepted proof reports exactly the latest update; the honest proof verifies. Tree-level verification is replaced by the membership oracle justified by C05 (natively, for replay, real proofs and the real tree verifiers are used).",
         "Kani/CBMC; ideal hash, ideal VRF (cfg hook), membership oracle stubs; <= 3 versions, epochs <= 7, 0-2 byte values/nonces; Kani pointer checks off and allocator-model artefacts ignored (DESIGN 3.1)"),
 "C07": ('Model checking of the history verifier in four layers, each over the real code: (shape) verify_with_history_params with arbitrary symbolic versions, epochs and parameters; (helpers) each base.rs verification helper against its specification over the honest tree; (update) verify_single_update_proof with every field symbolic - value/epoch/version truth, tombstone opt-in, previous-version stale marker present and stamped with the same epoch; (glue) the body of key_history_verify executed symbolically on its MIR with the three ingredients as opaque events: it returns Ok only if every update proof, every past and every future marker was verified with its own version / VRF proof / tree proof and succeeded, epochs are non-increasing, and the results are the per-update results in order. One known finding (F-C07).',
         'Kani/CBMC for the first three layers (ideal hash, ideal VRF, membership oracle; get_marker_versions replaced by a table regenerated from the real function each run; <= 4 update proofs (shape), <= 3 honest versions, epochs <= 7); own MIR path walker + z3 for the glue (k <= 3/4 update proofs, <= 2/3 markers of each kind), counterexamples confirmed by the native battery native_hist (real server and verifier); the composition of glue and ingredient layers is an argument, not a query'),
 "C08": ("Bounded symbolic execution of the rustc MIR of get_marker_versions (and helpers) into bit-vector SMT, regenerated from /repo on every run: the marker arithmetic that makes lookup and history proofs contradict each other is decided for ALL version/epoch triples below the stated width, on the real code's outputs, with unwinding assertions as queries; the one combination that does not conflict (single-marker lookup vs. complete history, F-C08) is reported as a known finding keyed by a closed-form predicate, any other hole is a violation.",
         "own MIR->SMT encoder (vk/mirsmt) with ~17 std models, validated against native execution every run; z3 5.1 (bit-blast+SAT) decides, z3 4.8.12 / cvc5 cross-check; what accepted proofs commit the server to is read off the verifiers (C06/C07) and tree-level exclusivity is C05"),
 "C19": ("Bounded model checking of the real From/TryFrom conversions between the proof types and the generated protobuf message structs: round trips are the identity for every symbolic value within the stated sizes, and messages with arbitrary content (missing fields, over-long labels, wrong-size digests, any direction word, wrong child counts) never panic the decoder and are rejected exactly in the documented cases.",
         "Kani/CBMC over akd_core built with the protobuf feature; struct level only: the third-party wire codec and therefore 'arbitrary bytes' are outside the claim"),
 "C05": ("Bounded model checking of the real verify_membership / verify_nonmembership compiled against an ideal (injective, hash-consing) hash: for every leaf set, query label and candidate proof within the bound, a proof verifies only for a true statement, and proofs of the documented honest shape verify.",
         "Kani/CBMC; ideal hash (collision-free, no pre-images); honest tree = reference trie oracle; real blake3 formulas and the async proof generators are outside the claim"),
}
from vk import registry
registry.PROPERTIES = {k: v for k, v in registry.PROPERTIES.items() if not k.endswith("_wip")}
checks = []
for pid in sorted(registry.PROPERTIES):
    t, note = TEXT[pid]
    checks.append({
        "property_id": pid,
        "quick_cmd": "./check %s quick" % pid,
        "thorough_cmd": "./check %s thorough" % pid,
        "evidence_file": "/verif/evidence/%s.json" % pid,
        "replay_cmd_template": "./check --replay {path}",
        "engine": {"C08": "mir-smt", "C10": "mir-smt", "C16": "mir-smt", "C07": "kani + mir-smt", "C11": "kani + mir-smt", "C13": "kani + mir-smt", "C15": "kani + mir-smt"}.get(pid, "kani"),
        "level_claimed": {"category": "model_checking", "text": t, "design_ref": "DESIGN.md section 4 (%s)" % pid},
        "level_note": note,
        "technique": ("bounded model checking of the compiled Rust code with Kani (CBMC + SAT), symbolic inputs via kani::any(), unwinding assertions on, reachability witnesses via kani::cover" if pid not in ("C08", "C10", "C16") else ("bounded symbolic execution of rustc MIR into SMT (z3, cross-checked with cvc5)" if pid == "C08" else "symbolic execution of rustc MIR (own path walker over coroutine bodies, callees as events) with z3 deciding the path queries; counterexamples confirmed by a native battery against the real code"))
                     + ("; plus symbolic execution of the rustc MIR of the function bodies Kani cannot reach (own walker, z3), counterexamples confirmed by native batteries against the real code" if pid in ("C07", "C11", "C13", "C15") else ""),
    })
m = {
 "version": 1,
 "setup_cmd": "./setup.sh",
 "hooks": {
   "guard": "--cfg facebook_akd_verif",
   "enable": "RUSTFLAGS=\"--cfg facebook_akd_verif\" (set by the runner for every harness crate build; harness crates depend on /repo/akd_core and /repo/akd by path)",
   "baseline_off_cmd": "cd /repo && cargo nextest run --workspace --no-fail-fast --tool-config-file pb:/w/lib/nextest.toml --profile pb --test-threads 8 --offline",
   "source_commits": ["cdd0823", "27c59b8", "fb68eb8", "3322da5", "c8dba43"],
   "add_only": True,
 },
 "engines": [
   {"name": "kani", "path": "/verif/kani_core, /verif/kani_akd, /verif/vk/kani.py", "serves_properties": sorted(p for p in registry.PROPERTIES if p != "C08"),
    "kind_free_text": "Kani 0.68 proof harnesses over the real crates (path dependencies), one cargo-kani process per harness, parsed per check; counterexamples replayed natively with cargo kani playback"},
 ],
 "checks": checks,
 "not_applicable": [{"property_id": k, "reason": v} for k, v in sorted(NA.items()) if k not in registry.PROPERTIES],
 "notes": "Exit codes of ./check: 0 all obligations discharged by the solver; 1 VIOLATION (reproduced natively, not a listed known finding); 2 inconclusive (time/memory cap, tool error, non-reproducing counterexample) - never reported as success. Fixed defects of /repo found by these checks are listed in known_findings.json ('fixed' entries suppress nothing).",
}
claimed = set(registry.PROPERTIES)
allp = ["C%02d" % i for i in range(1, 21)]
missing = [p for p in allp if p not in claimed and p not in NA]
for p in missing:
    m["not_applicable"].append({"property_id": p, "reason": "check under construction in this session; not claimed until its obligations pass on the unchanged tree"})
m["not_applicable"].sort(key=lambda x: x["property_id"])
json.dump(m, open('/verif/MANIFEST.json','w'), indent=1)
print("claimed", sorted(claimed), "NA", [x["property_id"] for x in m["not_applicable"]])
