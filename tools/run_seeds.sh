#!/bin/bash
# Apply each seeded change to /repo, run the property's quick check, undo the change.
# usage: tools/run_seeds.sh [seed-dir-name ...]     (default: all under /verif/seeded)
# Output: one line per seed in /verif/.build/logs/seeds.status, full logs next to it.
# VERIF_ONLY=<substring,..> restricts the obligations run (development aid).
# Evidence files written during these runs are restored afterwards (they describe a mutated tree).
cd /verif || exit 2
mkdir -p .build/logs .build/evidence_keep
seeds=("$@")
[ ${#seeds[@]} -eq 0 ] && seeds=($(ls seeded))
if [ -n "$(git -C /repo status --porcelain)" ]; then echo "/repo not clean"; exit 2; fi
for s in "${seeds[@]}"; do
  pid=$(python3 -c "import json;print(json.load(open('seeded/$s/meta.json'))['breaks'])")
  for patch in seeded/$s/*.diff; do
    [ -f "$patch" ] || continue
    name="$s/$(basename $patch)"
    cp evidence/$pid.json .build/evidence_keep/$pid.json 2>/dev/null
    if ! git -C /repo apply /verif/$patch; then echo "$name apply-failed" >> .build/logs/seeds.status; continue; fi
    t0=$(date +%s)
    ./check $pid quick > .build/logs/seed_${s}_$(basename $patch .diff).out 2>&1
    rc=$?
    git -C /repo checkout -- .
    cp .build/evidence_keep/$pid.json evidence/$pid.json 2>/dev/null
    viol=$(grep -c '^VIOLATION' .build/logs/seed_${s}_$(basename $patch .diff).out)
    echo "$name property=$pid exit=$rc violations=$viol wall=$(( $(date +%s) - t0 ))s" >> .build/logs/seeds.status
  done
done
git -C /repo status --porcelain
