#!/bin/bash
# Regenerate every evidence file from the quick tier on /repo's current tree (sequentially), then the manifest.
cd /verif || exit 2
rm -f .build/logs/final.status
for p in C10 C16 C13 C11 C15 C17 C06 C08 C19 C05 C07; do
  t0=$(date +%s)
  ./check $p quick > .build/logs/final_$p.out 2>&1
  echo "$p exit=$? wall=$(( $(date +%s) - t0 ))s" >> .build/logs/final.status
done
python3 tools/mkmanifest.py | tail -1
