// replay-of: property=C17 obligation=C17.pair_48_48_wa crate=kani_core harness=c17::c17_pair_48_48_wa rustflags=--cfg facebook_akd_verif
/// Test generated for harness `c17::c17_pair_48_48_wa` 
///
/// Check for `assertion`: "assertion failed: got == want"
///
/// # Warning
///
/// Concrete playback tests combined with stubs or contracts is highly
/// experimental, and subject to change.
///
/// The original harness has stubs which are not applied to this test.
/// This may cause a mismatch of non-deterministic values if the stub
/// creates any non-deterministic value.
/// The execution path may also differ, which can be used to refine the stub
/// logic.

#[test]
fn kani_concrete_playback_c17_pair_48_48_wa_12499207723365105000() {
    let concrete_vals: Vec<Vec<u8>> = vec![
        // 0
        vec![0],
        // 0
        vec![0],
        // 0
        vec![0],
        // 0
        vec![0],
        // 0
        vec![0],
        // 0
        vec![0],
        // 255
        vec![255],
        // 255
        vec![255],
        // 255
        vec![255],
        // 255
        vec![255],
        // 255
        vec![255],
        // 255
        vec![255],
        // 255
        vec![255],
        // 255
        vec![255],
        // 255
        vec![255],
        // 255
        vec![255],
        // 255
        vec![255],
        // 255
        vec![255],
        // 255
        vec![255],
        // 255
        vec![255],
        // 255
        vec![255],
        // 255
        vec![255],
        // 255
        vec![255],
        // 255
        vec![255],
        // 255
        vec![255],
        // 255
        vec![255],
        // 255
        vec![255],
        // 255
        vec![255],
        // 255
        vec![255],
        // 255
        vec![255],
        // 255
        vec![255],
        // 255
        vec![255],
        // 0
        vec![0],
        // 0
        vec![0],
        // 0
        vec![0],
        // 0
        vec![0],
        // 1
        vec![1],
        // 1
        vec![1],
        // 255
        vec![255],
        // 255
        vec![255],
        // 255
        vec![255],
        // 255
        vec![255],
        // 255
        vec![255],
        // 255
        vec![255],
        // 255
        vec![255],
        // 255
        vec![255],
        // 255
        vec![255],
        // 255
        vec![255],
        // 255
        vec![255],
        // 255
        vec![255],
        // 255
        vec![255],
        // 255
        vec![255],
        // 255
        vec![255],
        // 255
        vec![255],
        // 255
        vec![255],
        // 255
        vec![255],
        // 255
        vec![255],
        // 255
        vec![255],
        // 255
        vec![255],
        // 255
        vec![255],
        // 255
        vec![255],
        // 255
        vec![255],
        // 255
        vec![255],
        // 255
        vec![255],
    ];
    kani::concrete_playback_run(concrete_vals, c17_pair_48_48_wa);
}
