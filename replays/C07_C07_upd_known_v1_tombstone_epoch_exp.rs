// replay-of: property=C07 obligation=C07.upd_known_v1_tombstone_epoch_exp crate=kani_core harness=c07upd::c07_upd_known_v1_tombstone_epoch_exp rustflags=--cfg facebook_akd_verif
/// Test generated for harness `c07upd::c07_upd_known_v1_tombstone_epoch_exp` 
///
/// Check for `assertion`: ""update proof accepted with a wrong epoch (tombstoned version 1: known finding F-C07)""
///
/// # Warning
///
/// Concrete playback tests combined with stubs or contracts is highly
/// experimental, and subject to change.
///
/// The original harness has stubs which are not applied to this test.
/// This may cause a mismatch of non-deterministic values if the stub
/// creates any non-deterministic value.
/// The execution path may also differ, which can be used to refine the stub
/// logic.

#[test]
fn kani_concrete_playback_c07_upd_known_v1_tombstone_epoch_exp_15993245083909891782() {
    let concrete_vals: Vec<Vec<u8>> = vec![
        // 123
        vec![123],
        // 123
        vec![123],
        // 249
        vec![249],
        // 134
        vec![134],
        // 123
        vec![123],
        // 123
        vec![123],
        // 123
        vec![123],
        // 123
        vec![123],
        // 248
        vec![248],
        // 248
        vec![248],
        // 252
        vec![252],
        // 250
        vec![250],
        // 248
        vec![248],
        // 248
        vec![248],
        // 248
        vec![248],
        // 248
        vec![248],
        // 1ul
        vec![1, 0, 0, 0, 0, 0, 0, 0],
        // 0
        vec![0],
        // 0
        vec![0],
        // 0
        vec![0],
        // 0
        vec![0],
        // 1
        vec![1],
        // 0
        vec![0],
        // 6ul
        vec![6, 0, 0, 0, 0, 0, 0, 0],
        // 7ul
        vec![7, 0, 0, 0, 0, 0, 0, 0],
        // 281474976710659ul
        vec![3, 0, 0, 0, 0, 0, 1, 0],
        // 1
        vec![1],
        // 1ul
        vec![1, 0, 0, 0, 0, 0, 0, 0],
        // 2ul
        vec![2, 0, 0, 0, 0, 0, 0, 0],
        // 0
        vec![0],
        // 63521
        vec![33, 248],
        // 0
        vec![0],
        // 2
        vec![2],
    ];
    kani::concrete_playback_run(concrete_vals, c07_upd_known_v1_tombstone_epoch_exp);
}
