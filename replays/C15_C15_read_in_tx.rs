// replay-of: property=C15 obligation=C15.read_in_tx crate=kani_akd harness=c15::c15_read_in_transaction_equals_read_after_commit rustflags=--cfg facebook_akd_verif
/// Test generated for harness `c15::c15_read_in_transaction_equals_read_after_commit` 
///
/// Check for `assertion`: ""read inside the transaction differs from the read after commit""

#[test]
fn kani_concrete_playback_c15_read_in_transaction_equals_read_after_commit_5246627031286568599() {
    let concrete_vals: Vec<Vec<u8>> = vec![
        // 2ul
        vec![2, 0, 0, 0, 0, 0, 0, 0],
        // 3ul
        vec![3, 0, 0, 0, 0, 0, 0, 0],
        // 9223363515638611969ul
        vec![1, 0, 240, 255, 63, 248, 255, 127],
        // 18446735552495484939ul
        vec![11, 0, 16, 0, 64, 248, 255, 255],
        // 18446726481523507169ul
        vec![225, 255, 255, 255, 255, 239, 255, 255],
        // 18446735818782408703ul
        vec![255, 255, 255, 255, 125, 248, 255, 255],
        // 18446735277620199138ul
        vec![226, 254, 55, 0, 0, 248, 255, 255],
        // 18446735835962277897ul
        vec![9, 0, 0, 0, 130, 248, 255, 255],
        // 9223363515638611969ul
        vec![1, 0, 240, 255, 63, 248, 255, 127],
        // 18446735552495484939ul
        vec![11, 0, 16, 0, 64, 248, 255, 255],
        // 18446735277620199138ul
        vec![226, 254, 55, 0, 0, 248, 255, 255],
        // 18446735835962277897ul
        vec![9, 0, 0, 0, 130, 248, 255, 255],
        // 162
        vec![162],
        // 18446735552495484939ul
        vec![11, 0, 16, 0, 64, 248, 255, 255],
    ];
    kani::concrete_playback_run(concrete_vals, c15_read_in_transaction_equals_read_after_commit);
}
