// replay-of: property=C05 obligation=C05.nm_wa_l2_w4_s1l crate=kani_core harness=c05::c05s_nm_wa_l2_w4_s1l rustflags=--cfg facebook_akd_verif
/// Test generated for harness `c05::c05s_nm_wa_l2_w4_s1l` 
///
/// Check for `assertion`: ""non-membership proof accepted for a label that is in the tree""
///
/// # Warning
///
/// Concrete playback tests combined with stubs or contracts is highly
/// experimental, and subject to change.
///
/// The original harness has stubs which are not applied to this test.
/// This may cause a mismatch of non-deterministic values if the stub
/// creates any non-deterministic value.
/// The execution path may also differ, which can be used to refine the stub
/// logic.

#[test]
fn kani_concrete_playback_c05s_nm_wa_l2_w4_s1l_12456510362919275704() {
    let concrete_vals: Vec<Vec<u8>> = vec![
        // 0
        vec![0, 0],
        // 16640
        vec![0, 65],
        // 16384
        vec![0, 64],
        // 16640
        vec![0, 65],
        // 0
        vec![0, 0],
    ];
    kani::concrete_playback_run(concrete_vals, c05s_nm_wa_l2_w4_s1l);
}
