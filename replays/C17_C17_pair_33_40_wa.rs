// replay-of: property=C17 obligation=C17.pair_33_40_wa crate=kani_core harness=c17::c17_pair_33_40_wa rustflags=--cfg facebook_akd_verif
/// Test generated for harness `c17::c17_pair_33_40_wa` 
///
/// Check for `assertion`: "assertion failed: got == want"
///
/// # Warning
///
/// Concrete playback tests combined with stubs or contracts is highly
/// experimental, and subject to change.
///
/// The original harness has stubs which are not applied to this test.
/// This may cause a mismatch of non-deterministic values if the stub
/// creates any non-deterministic value.
/// The execution path may also differ, which can be used to refine the stub
/// logic.

#[test]
fn kani_concrete_playback_c17_pair_33_40_wa_8791763389309831519() {
    let concrete_vals: Vec<Vec<u8>> = vec![
        // 0
        vec![0],
        // 0
        vec![0],
        // 0
        vec![0],
        // 0
        vec![0],
        // 127
        vec![127],
        // 255
        vec![255],
        // 255
        vec![255],
        // 255
        vec![255],
        // 255
        vec![255],
        // 255
        vec![255],
        // 255
        vec![255],
        // 255
        vec![255],
        // 255
        vec![255],
        // 255
        vec![255],
        // 255
        vec![255],
        // 255
        vec![255],
        // 255
        vec![255],
        // 255
        vec![255],
        // 255
        vec![255],
        // 255
        vec![255],
        // 255
        vec![255],
        // 255
        vec![255],
        // 255
        vec![255],
        // 255
        vec![255],
        // 255
        vec![255],
        // 255
        vec![255],
        // 255
        vec![255],
        // 255
        vec![255],
        // 255
        vec![255],
        // 255
        vec![255],
        // 255
        vec![255],
        // 255
        vec![255],
        // 0
        vec![0],
        // 0
        vec![0],
        // 0
        vec![0],
        // 0
        vec![0],
        // 128
        vec![128],
        // 255
        vec![255],
        // 255
        vec![255],
        // 255
        vec![255],
        // 255
        vec![255],
        // 255
        vec![255],
        // 255
        vec![255],
        // 255
        vec![255],
        // 255
        vec![255],
        // 255
        vec![255],
        // 255
        vec![255],
        // 255
        vec![255],
        // 255
        vec![255],
        // 255
        vec![255],
        // 255
        vec![255],
        // 255
        vec![255],
        // 255
        vec![255],
        // 255
        vec![255],
        // 255
        vec![255],
        // 255
        vec![255],
        // 255
        vec![255],
        // 255
        vec![255],
        // 255
        vec![255],
        // 255
        vec![255],
        // 255
        vec![255],
        // 255
        vec![255],
        // 255
        vec![255],
        // 255
        vec![255],
    ];
    kani::concrete_playback_run(concrete_vals, c17_pair_33_40_wa);
}
