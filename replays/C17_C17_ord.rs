// replay-of: property=C17 obligation=C17.ord crate=kani_core harness=c17::c17_ord_all rustflags=--cfg facebook_akd_verif
/// Test generated for harness `c17::c17_ord_all` 
///
/// Check for `assertion`: "This is a placeholder message; Kani doesn't support message formatted at runtime"

#[test]
fn kani_concrete_playback_c17_ord_all_6747561091441629816() {
    let concrete_vals: Vec<Vec<u8>> = vec![
        // 0
        vec![0],
        // 0
        vec![0],
        // 0
        vec![0],
        // 0
        vec![0],
        // 0
        vec![0],
        // 0
        vec![0],
        // 0
        vec![0],
        // 0
        vec![0],
        // 0
        vec![0],
        // 0
        vec![0],
        // 0
        vec![0],
        // 0
        vec![0],
        // 0
        vec![0],
        // 0
        vec![0],
        // 0
        vec![0],
        // 0
        vec![0],
        // 0
        vec![0],
        // 0
        vec![0],
        // 0
        vec![0],
        // 0
        vec![0],
        // 0
        vec![0],
        // 0
        vec![0],
        // 0
        vec![0],
        // 0
        vec![0],
        // 0
        vec![0],
        // 0
        vec![0],
        // 0
        vec![0],
        // 0
        vec![0],
        // 0
        vec![0],
        // 0
        vec![0],
        // 0
        vec![0],
        // 0
        vec![0],
        // 264
        vec![8, 1, 0, 0],
        // 0
        vec![0],
        // 0
        vec![0],
        // 0
        vec![0],
        // 0
        vec![0],
        // 0
        vec![0],
        // 0
        vec![0],
        // 0
        vec![0],
        // 0
        vec![0],
        // 0
        vec![0],
        // 0
        vec![0],
        // 0
        vec![0],
        // 0
        vec![0],
        // 0
        vec![0],
        // 0
        vec![0],
        // 0
        vec![0],
        // 0
        vec![0],
        // 0
        vec![0],
        // 0
        vec![0],
        // 0
        vec![0],
        // 0
        vec![0],
        // 0
        vec![0],
        // 0
        vec![0],
        // 0
        vec![0],
        // 0
        vec![0],
        // 0
        vec![0],
        // 0
        vec![0],
        // 0
        vec![0],
        // 0
        vec![0],
        // 0
        vec![0],
        // 0
        vec![0],
        // 0
        vec![0],
        // 0
        vec![0],
        // 264
        vec![8, 1, 0, 0],
    ];
    kani::concrete_playback_run(concrete_vals, c17_ord_all);
}
