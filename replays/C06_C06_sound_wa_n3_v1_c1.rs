// replay-of: property=C06 obligation=C06.sound_wa_n3_v1_c1 crate=kani_core harness=c06::c06_sound_wa_n3_v1_c1 rustflags=--cfg facebook_akd_verif
/// Test generated for harness `c06::c06_sound_wa_n3_v1_c1` 
///
/// Check for `assertion`: ""lookup accepted for a version that is not the latest""
///
/// # Warning
///
/// Concrete playback tests combined with stubs or contracts is highly
/// experimental, and subject to change.
///
/// The original harness has stubs which are not applied to this test.
/// This may cause a mismatch of non-deterministic values if the stub
/// creates any non-deterministic value.
/// The execution path may also differ, which can be used to refine the stub
/// logic.

#[test]
fn kani_concrete_playback_c06_sound_wa_n3_v1_c1_9667583879818257283() {
    let concrete_vals: Vec<Vec<u8>> = vec![
        // 1
        vec![1],
        // 1
        vec![1],
        // 1
        vec![1],
        // 1
        vec![1],
        // 1
        vec![1],
        // 1
        vec![1],
        // 1
        vec![1],
        // 1
        vec![1],
        // 255
        vec![255],
        // 255
        vec![255],
        // 255
        vec![255],
        // 255
        vec![255],
        // 255
        vec![255],
        // 255
        vec![255],
        // 255
        vec![255],
        // 255
        vec![255],
        // 3ul
        vec![3, 0, 0, 0, 0, 0, 0, 0],
        // 251
        vec![251],
        // 251
        vec![251],
        // 251
        vec![251],
        // 0
        vec![0],
        // 0
        vec![0],
        // 1
        vec![1],
        // 1ul
        vec![1, 0, 0, 0, 0, 0, 0, 0],
        // 2ul
        vec![2, 0, 0, 0, 0, 0, 0, 0],
        // 5ul
        vec![5, 0, 0, 0, 0, 0, 0, 0],
        // 7ul
        vec![7, 0, 0, 0, 0, 0, 0, 0],
        // 2ul
        vec![2, 0, 0, 0, 0, 0, 0, 0],
        // 251
        vec![251],
        // 2ul
        vec![2, 0, 0, 0, 0, 0, 0, 0],
        // 0
        vec![0],
        // 65314
        vec![34, 255],
        // 1
        vec![1],
        // 1
        vec![1],
        // 2ul
        vec![2, 0, 0, 0, 0, 0, 0, 0],
        // 1
        vec![1],
        // 1
        vec![1],
        // 0
        vec![0],
        // 259
        vec![3, 1],
        // 0
        vec![0],
    ];
    kani::concrete_playback_run(concrete_vals, c06_sound_wa_n3_v1_c1);
}
