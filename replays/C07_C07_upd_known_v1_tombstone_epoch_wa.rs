// replay-of: property=C07 obligation=C07.upd_known_v1_tombstone_epoch_wa crate=kani_core harness=c07upd::c07_upd_known_v1_tombstone_epoch_wa rustflags=--cfg facebook_akd_verif
/// Test generated for harness `c07upd::c07_upd_known_v1_tombstone_epoch_wa` 
///
/// Check for `assertion`: "rust_dealloc must be called on an object whose allocated size matches its layout"
///
/// # Warning
///
/// Concrete playback tests combined with stubs or contracts is highly
/// experimental, and subject to change.
///
/// The original harness has stubs which are not applied to this test.
/// This may cause a mismatch of non-deterministic values if the stub
/// creates any non-deterministic value.
/// The execution path may also differ, which can be used to refine the stub
/// logic.

#[test]
fn kani_concrete_playback_c07_upd_known_v1_tombstone_epoch_wa_15516520747560552409() {
    let concrete_vals: Vec<Vec<u8>> = vec![
        // 255
        vec![255],
        // 3
        vec![3],
        // 255
        vec![255],
        // 255
        vec![255],
        // 255
        vec![255],
        // 255
        vec![255],
        // 255
        vec![255],
        // 255
        vec![255],
        // 1
        vec![1],
        // 1
        vec![1],
        // 1
        vec![1],
        // 252
        vec![252],
        // 1
        vec![1],
        // 1
        vec![1],
        // 1
        vec![1],
        // 1
        vec![1],
        // 3ul
        vec![3, 0, 0, 0, 0, 0, 0, 0],
        // 255
        vec![255],
        // 255
        vec![255],
        // 0
        vec![0],
        // 255
        vec![255],
        // 255
        vec![255],
        // 0
        vec![0],
        // 1ul
        vec![1, 0, 0, 0, 0, 0, 0, 0],
        // 2ul
        vec![2, 0, 0, 0, 0, 0, 0, 0],
        // 3ul
        vec![3, 0, 0, 0, 0, 0, 0, 0],
        // 65535
        vec![255, 255],
        // 65535
        vec![255, 255],
        // 65535
        vec![255, 255],
        // 65535
        vec![255, 255],
        // 65535
        vec![255, 255],
        // 65535
        vec![255, 255],
        // 18446744073709551615ul
        vec![255, 255, 255, 255, 255, 255, 255, 255],
        // 18446744073709551615ul
        vec![255, 255, 255, 255, 255, 255, 255, 255],
        // 1
        vec![1],
        // 257ul
        vec![1, 1, 0, 0, 0, 0, 0, 0],
        // 2ul
        vec![2, 0, 0, 0, 0, 0, 0, 0],
        // 0
        vec![0],
        // 289
        vec![33, 1],
        // 12
        vec![12],
        // 0
        vec![0],
    ];
    kani::concrete_playback_run(concrete_vals, c07_upd_known_v1_tombstone_epoch_wa);
}
