// replay-of: property=C07 obligation=C07.upd_known_v1_tombstone_epoch_wa crate=kani_core harness=c07upd::c07_upd_known_v1_tombstone_epoch_wa rustflags=--cfg facebook_akd_verif
#[test]
fn kani_concrete_playback_c07_upd_known_v1_tombstone_epoch_wa_11740881601823969459() {
    let concrete_vals: Vec<Vec<u8>> = vec![
        // 3
        vec![3],
        // 3
        vec![3],
        // 3
        vec![3],
        // 3
        vec![3],
        // 3
        vec![3],
        // 3
        vec![3],
        // 3
        vec![3],
        // 3
        vec![3],
        // 255
        vec![255],
        // 255
        vec![255],
        // 0
        vec![0],
        // 0
        vec![0],
        // 255
        vec![255],
        // 255
        vec![255],
        // 255
        vec![255],
        // 255
        vec![255],
        // 1ul
        vec![1, 0, 0, 0, 0, 0, 0, 0],
        // 255
        vec![255],
        // 255
        vec![255],
        // 255
        vec![255],
        // 255
        vec![255],
        // 255
        vec![255],
        // 255
        vec![255],
        // 3ul
        vec![3, 0, 0, 0, 0, 0, 0, 0],
        // 281474976710659ul
        vec![3, 0, 0, 0, 0, 0, 1, 0],
        // 281474976710659ul
        vec![3, 0, 0, 0, 0, 0, 1, 0],
        // 1
        vec![1],
        // 1ul
        vec![1, 0, 0, 0, 0, 0, 0, 0],
        // 9ul
        vec![9, 0, 0, 0, 0, 0, 0, 0],
        // 0
        vec![0],
        // 65313
        vec![33, 255],
        // 0
        vec![0],
        // 254
        vec![254],
    ];
    kani::concrete_playback_run(concrete_vals, c07_upd_known_v1_tombstone_epoch_wa);
}
