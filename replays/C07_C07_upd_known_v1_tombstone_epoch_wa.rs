// replay-of: property=C07 obligation=C07.upd_known_v1_tombstone_epoch_wa crate=kani_core harness=c07upd::c07_upd_known_v1_tombstone_epoch_wa rustflags=--cfg facebook_akd_verif
/// Test generated for harness `c07upd::c07_upd_known_v1_tombstone_epoch_wa` 
///
/// Check for `assertion`: ""update proof accepted with a wrong epoch (tombstoned version 1: known finding F-C07)""
///
/// # Warning
///
/// Concrete playback tests combined with stubs or contracts is highly
/// experimental, and subject to change.
///
/// The original harness has stubs which are not applied to this test.
/// This may cause a mismatch of non-deterministic values if the stub
/// creates any non-deterministic value.
/// The execution path may also differ, which can be used to refine the stub
/// logic.

#[test]
fn kani_concrete_playback_c07_upd_known_v1_tombstone_epoch_wa_18320682064559908792() {
    let concrete_vals: Vec<Vec<u8>> = vec![
        // 3
        vec![3],
        // 254
        vec![254],
        // 3
        vec![3],
        // 3
        vec![3],
        // 3
        vec![3],
        // 3
        vec![3],
        // 3
        vec![3],
        // 3
        vec![3],
        // 254
        vec![254],
        // 254
        vec![254],
        // 254
        vec![254],
        // 0
        vec![0],
        // 254
        vec![254],
        // 254
        vec![254],
        // 254
        vec![254],
        // 254
        vec![254],
        // 1ul
        vec![1, 0, 0, 0, 0, 0, 0, 0],
        // 255
        vec![255],
        // 0
        vec![0],
        // 255
        vec![255],
        // 7
        vec![7],
        // 2
        vec![2],
        // 2
        vec![2],
        // 2ul
        vec![2, 0, 0, 0, 0, 0, 0, 0],
        // 281474976711187ul
        vec![19, 2, 0, 0, 0, 0, 1, 0],
        // 281474976711188ul
        vec![20, 2, 0, 0, 0, 0, 1, 0],
        // 1
        vec![1],
        // 1ul
        vec![1, 0, 0, 0, 0, 0, 0, 0],
        // 18446744073709420794ul
        vec![250, 0, 254, 255, 255, 255, 255, 255],
        // 0
        vec![0],
        // 65057
        vec![33, 254],
        // 0
        vec![0],
        // 1
        vec![1],
    ];
    kani::concrete_playback_run(concrete_vals, c07_upd_known_v1_tombstone_epoch_wa);
}
