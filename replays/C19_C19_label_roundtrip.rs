// replay-of: property=C19 obligation=C19.label_roundtrip crate=kani_core harness=c19::c19_label_roundtrip rustflags=--cfg facebook_akd_verif
/// Test generated for harness `c19::c19_label_roundtrip` 
///
/// Check for `assertion`: ""label changed by the protobuf round trip""
///
/// # Warning
///
/// Concrete playback tests combined with stubs or contracts is highly
/// experimental, and subject to change.
///
/// The original harness has stubs which are not applied to this test.
/// This may cause a mismatch of non-deterministic values if the stub
/// creates any non-deterministic value.
/// The execution path may also differ, which can be used to refine the stub
/// logic.

#[test]
fn kani_concrete_playback_c19_label_roundtrip_13941858766721935443() {
    let concrete_vals: Vec<Vec<u8>> = vec![
        // 1
        vec![1, 0, 0, 0],
        // 0
        vec![0],
        // 0
        vec![0],
        // 0
        vec![0],
        // 0
        vec![0],
        // 0
        vec![0],
        // 0
        vec![0],
        // 0
        vec![0],
        // 0
        vec![0],
        // 0
        vec![0],
        // 0
        vec![0],
        // 0
        vec![0],
        // 0
        vec![0],
        // 0
        vec![0],
        // 0
        vec![0],
        // 0
        vec![0],
        // 0
        vec![0],
        // 0
        vec![0],
        // 0
        vec![0],
        // 0
        vec![0],
        // 0
        vec![0],
        // 0
        vec![0],
        // 0
        vec![0],
        // 0
        vec![0],
        // 0
        vec![0],
        // 0
        vec![0],
        // 0
        vec![0],
        // 0
        vec![0],
        // 0
        vec![0],
        // 0
        vec![0],
        // 0
        vec![0],
        // 1
        vec![1],
        // 1
        vec![1],
    ];
    kani::concrete_playback_run(concrete_vals, c19_label_roundtrip);
}
