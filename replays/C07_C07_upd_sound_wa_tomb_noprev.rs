// replay-of: property=C07 obligation=C07.upd_sound_wa_tomb_noprev crate=kani_core harness=c07upd::c07_upd_sound_wa_tomb_noprev rustflags=--cfg facebook_akd_verif
/// Test generated for harness `c07upd::c07_upd_sound_wa_tomb_noprev` 
///
/// Check for `assertion`: ""update proof accepted with a wrong epoch (tombstoned version 1: known finding F-C07)""
///
/// # Warning
///
/// Concrete playback tests combined with stubs or contracts is highly
/// experimental, and subject to change.
///
/// The original harness has stubs which are not applied to this test.
/// This may cause a mismatch of non-deterministic values if the stub
/// creates any non-deterministic value.
/// The execution path may also differ, which can be used to refine the stub
/// logic.

#[test]
fn kani_concrete_playback_c07_upd_sound_wa_tomb_noprev_12977514590770156795() {
    let concrete_vals: Vec<Vec<u8>> = vec![
        // 27
        vec![27],
        // 27
        vec![27],
        // 27
        vec![27],
        // 27
        vec![27],
        // 27
        vec![27],
        // 27
        vec![27],
        // 27
        vec![27],
        // 27
        vec![27],
        // 247
        vec![247],
        // 230
        vec![230],
        // 231
        vec![231],
        // 231
        vec![231],
        // 231
        vec![231],
        // 231
        vec![231],
        // 231
        vec![231],
        // 231
        vec![231],
        // 2ul
        vec![2, 0, 0, 0, 0, 0, 0, 0],
        // 0
        vec![0],
        // 0
        vec![0],
        // 0
        vec![0],
        // 0
        vec![0],
        // 0
        vec![0],
        // 1
        vec![1],
        // 1ul
        vec![1, 0, 0, 0, 0, 0, 0, 0],
        // 5ul
        vec![5, 0, 0, 0, 0, 0, 0, 0],
        // 281474976710660ul
        vec![4, 0, 0, 0, 0, 0, 1, 0],
        // 1
        vec![1],
        // 2ul
        vec![2, 0, 0, 0, 0, 0, 0, 0],
        // 281474976776194ul
        vec![2, 0, 1, 0, 0, 0, 1, 0],
        // 0
        vec![0],
        // 59170
        vec![34, 231],
        // 1
        vec![1],
        // 254
        vec![254],
    ];
    kani::concrete_playback_run(concrete_vals, c07_upd_sound_wa_tomb_noprev);
}
