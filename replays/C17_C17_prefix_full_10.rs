// replay-of: property=C17 obligation=C17.prefix_full_10 crate=kani_core harness=c17::c17_prefix_full_10 rustflags=--cfg facebook_akd_verif
/// Test generated for harness `c17::c17_prefix_full_10` 
///
/// Check for `cover`: "cover condition: a.label_len == 10 && b.label_len == 10 && a.label_val [0] == 0xa5 &&
a.is_prefix_of(& b)"
///
/// # Warning
///
/// Concrete playback tests combined with stubs or contracts is highly
/// experimental, and subject to change.
///
/// The original harness has stubs which are not applied to this test.
/// This may cause a mismatch of non-deterministic values if the stub
/// creates any non-deterministic value.
/// The execution path may also differ, which can be used to refine the stub
/// logic.

#[test]
fn kani_concrete_playback_c17_prefix_full_10_13759744089579712175() {
    let concrete_vals: Vec<Vec<u8>> = vec![
        // 165
        vec![165],
        // 0
        vec![0],
        // 0
        vec![0],
        // 0
        vec![0],
        // 0
        vec![0],
        // 0
        vec![0],
        // 0
        vec![0],
        // 0
        vec![0],
        // 0
        vec![0],
        // 0
        vec![0],
        // 0
        vec![0],
        // 0
        vec![0],
        // 0
        vec![0],
        // 0
        vec![0],
        // 0
        vec![0],
        // 0
        vec![0],
        // 0
        vec![0],
        // 0
        vec![0],
        // 0
        vec![0],
        // 0
        vec![0],
        // 0
        vec![0],
        // 0
        vec![0],
        // 0
        vec![0],
        // 0
        vec![0],
        // 0
        vec![0],
        // 0
        vec![0],
        // 0
        vec![0],
        // 0
        vec![0],
        // 0
        vec![0],
        // 0
        vec![0],
        // 0
        vec![0],
        // 0
        vec![0],
        // 10
        vec![10, 0, 0, 0],
        // 165
        vec![165],
        // 36
        vec![36],
        // 37
        vec![37],
        // 37
        vec![37],
        // 37
        vec![37],
        // 37
        vec![37],
        // 37
        vec![37],
        // 37
        vec![37],
        // 37
        vec![37],
        // 37
        vec![37],
        // 37
        vec![37],
        // 37
        vec![37],
        // 37
        vec![37],
        // 37
        vec![37],
        // 37
        vec![37],
        // 37
        vec![37],
        // 37
        vec![37],
        // 37
        vec![37],
        // 37
        vec![37],
        // 37
        vec![37],
        // 37
        vec![37],
        // 37
        vec![37],
        // 37
        vec![37],
        // 37
        vec![37],
        // 37
        vec![37],
        // 37
        vec![37],
        // 37
        vec![37],
        // 37
        vec![37],
        // 37
        vec![37],
        // 37
        vec![37],
        // 37
        vec![37],
        // 37
        vec![37],
        // 10
        vec![10, 0, 0, 0],
    ];
    kani::concrete_playback_run(concrete_vals, c17_prefix_full_10);
}
