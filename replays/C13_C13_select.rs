// replay-of: property=C13 obligation=C13.select crate=kani_akd harness=c13::c13_select_never_newer_than_target rustflags=--cfg facebook_akd_verif
/// Test generated for harness `c13::c13_select_never_newer_than_target` 
///
/// Check for `assertion`: ""node selected for epoch t was written after epoch t""
///
/// # Warning
///
/// Concrete playback tests combined with stubs or contracts is highly
/// experimental, and subject to change.
///
/// The original harness has stubs which are not applied to this test.
/// This may cause a mismatch of non-deterministic values if the stub
/// creates any non-deterministic value.
/// The execution path may also differ, which can be used to refine the stub
/// logic.

#[test]
fn kani_concrete_playback_c13_select_never_newer_than_target_4383579977003278254() {
    let concrete_vals: Vec<Vec<u8>> = vec![
        // 224
        vec![224],
        // 128
        vec![128],
        // 224
        vec![224],
        // 228
        vec![228],
        // 224
        vec![224],
        // 248
        vec![248],
        // 188
        vec![188],
        // 224
        vec![224],
        // 240
        vec![240],
        // 254
        vec![254],
        // 254
        vec![254],
        // 254
        vec![254],
        // 128
        vec![128],
        // 0
        vec![0],
        // 224
        vec![224],
        // 0
        vec![0],
        // 128
        vec![128],
        // 248
        vec![248],
        // 254
        vec![254],
        // 120
        vec![120],
        // 254
        vec![254],
        // 0
        vec![0],
        // 254
        vec![254],
        // 254
        vec![254],
        // 246
        vec![246],
        // 192
        vec![192],
        // 128
        vec![128],
        // 224
        vec![224],
        // 0
        vec![0],
        // 128
        vec![128],
        // 128
        vec![128],
        // 248
        vec![248],
        // 4294967295
        vec![255, 255, 255, 255],
        // 18436028775335395327ul
        vec![255, 255, 190, 46, 126, 238, 217, 255],
        // 18446744073709551615ul
        vec![255, 255, 255, 255, 255, 255, 255, 255],
        // 59
        vec![59],
        // 60
        vec![60],
        // 48
        vec![48],
        // 163
        vec![163],
        // 128
        vec![128],
        // 120
        vec![120],
        // 176
        vec![176],
        // 176
        vec![176],
        // 96
        vec![96],
        // 21
        vec![21],
        // 0
        vec![0],
        // 128
        vec![128],
        // 64
        vec![64],
        // 160
        vec![160],
        // 45
        vec![45],
        // 147
        vec![147],
        // 224
        vec![224],
        // 0
        vec![0],
        // 0
        vec![0],
        // 232
        vec![232],
        // 59
        vec![59],
        // 172
        vec![172],
        // 0
        vec![0],
        // 224
        vec![224],
        // 0
        vec![0],
        // 225
        vec![225],
        // 102
        vec![102],
        // 192
        vec![192],
        // 120
        vec![120],
        // 168
        vec![168],
        // 13
        vec![13],
        // 169
        vec![169],
        // 4294967295
        vec![255, 255, 255, 255],
        // 185
        vec![185],
        // 0
        vec![0],
        // 0
        vec![0],
        // 140
        vec![140],
        // 1
        vec![1],
        // 33
        vec![33],
        // 16
        vec![16],
        // 129
        vec![129],
        // 65
        vec![65],
        // 34
        vec![34],
        // 80
        vec![80],
        // 34
        vec![34],
        // 12
        vec![12],
        // 1
        vec![1],
        // 64
        vec![64],
        // 19
        vec![19],
        // 28
        vec![28],
        // 16
        vec![16],
        // 4
        vec![4],
        // 54
        vec![54],
        // 111
        vec![111],
        // 199
        vec![199],
        // 1
        vec![1],
        // 166
        vec![166],
        // 253
        vec![253],
        // 7
        vec![7],
        // 61
        vec![61],
        // 64
        vec![64],
        // 1
        vec![1],
        // 1
        vec![1],
        // 1
        vec![1],
        // 2
        vec![2],
        // 21
        vec![21],
        // 1
        vec![1],
        // 58
        vec![58],
        // 1
        vec![1],
        // 18445035974590136319ul
        vec![255, 255, 190, 46, 126, 238, 249, 255],
        // 18446744073709551615ul
        vec![255, 255, 255, 255, 255, 255, 255, 255],
        // 59
        vec![59],
        // 60
        vec![60],
        // 48
        vec![48],
        // 163
        vec![163],
        // 128
        vec![128],
        // 120
        vec![120],
        // 176
        vec![176],
        // 176
        vec![176],
        // 96
        vec![96],
        // 21
        vec![21],
        // 0
        vec![0],
        // 128
        vec![128],
        // 64
        vec![64],
        // 160
        vec![160],
        // 45
        vec![45],
        // 147
        vec![147],
        // 224
        vec![224],
        // 0
        vec![0],
        // 0
        vec![0],
        // 232
        vec![232],
        // 59
        vec![59],
        // 172
        vec![172],
        // 0
        vec![0],
        // 224
        vec![224],
        // 0
        vec![0],
        // 225
        vec![225],
        // 102
        vec![102],
        // 192
        vec![192],
        // 120
        vec![120],
        // 168
        vec![168],
        // 13
        vec![13],
        // 169
        vec![169],
        // 4294967295
        vec![255, 255, 255, 255],
        // 185
        vec![185],
        // 0
        vec![0],
        // 0
        vec![0],
        // 139
        vec![139],
        // 0
        vec![0],
        // 31
        vec![31],
        // 255
        vec![255],
        // 124
        vec![124],
        // 31
        vec![31],
        // 29
        vec![29],
        // 63
        vec![63],
        // 33
        vec![33],
        // 11
        vec![11],
        // 128
        vec![128],
        // 176
        vec![176],
        // 17
        vec![17],
        // 155
        vec![155],
        // 143
        vec![143],
        // 3
        vec![3],
        // 52
        vec![52],
        // 242
        vec![242],
        // 64
        vec![64],
        // 0
        vec![0],
        // 32
        vec![32],
        // 252
        vec![252],
        // 130
        vec![130],
        // 100
        vec![100],
        // 112
        vec![112],
        // 192
        vec![192],
        // 128
        vec![128],
        // 64
        vec![64],
        // 0
        vec![0],
        // 20
        vec![20],
        // 0
        vec![0],
        // 0
        vec![0],
        // 18435949128745467902ul
        vec![254, 191, 11, 4, 14, 166, 217, 255],
    ];
    kani::concrete_playback_run(concrete_vals, c13_select_never_newer_than_target);
}
