// replay-of: property=C07 obligation=C07.shape_k3_p0_f0 crate=kani_core harness=c07shape::c07_shape_k3_p0_f0 rustflags=--cfg facebook_akd_verif
/// Test generated for harness `c07shape::c07_shape_k3_p0_f0` 
///
/// Check for `assertion`: ""update proofs accepted although their versions are not consecutive and decreasing""
///
/// # Warning
///
/// Concrete playback tests combined with stubs or contracts is highly
/// experimental, and subject to change.
///
/// The original harness has stubs which are not applied to this test.
/// This may cause a mismatch of non-deterministic values if the stub
/// creates any non-deterministic value.
/// The execution path may also differ, which can be used to refine the stub
/// logic.

#[test]
fn kani_concrete_playback_c07_shape_k3_p0_f0_15972363977392296785() {
    let concrete_vals: Vec<Vec<u8>> = vec![
        // 5ul
        vec![5, 0, 0, 0, 0, 0, 0, 0],
        // 5ul
        vec![5, 0, 0, 0, 0, 0, 0, 0],
        // 4ul
        vec![4, 0, 0, 0, 0, 0, 0, 0],
        // 2ul
        vec![2, 0, 0, 0, 0, 0, 0, 0],
        // 18446744073709551615ul
        vec![255, 255, 255, 255, 255, 255, 255, 255],
        // 18446744073709551615ul
        vec![255, 255, 255, 255, 255, 255, 255, 255],
        // 18446744073709551615ul
        vec![255, 255, 255, 255, 255, 255, 255, 255],
        // 3ul
        vec![3, 0, 0, 0, 0, 0, 0, 0],
        // 0
        vec![0],
    ];
    kani::concrete_playback_run(concrete_vals, c07_shape_k3_p0_f0);
}
