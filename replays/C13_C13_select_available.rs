// replay-of: property=C13 obligation=C13.select_available crate=kani_akd harness=c13::c13_select_notfound_only_when_nothing_qualifies rustflags=--cfg facebook_akd_verif
/// Test generated for harness `c13::c13_select_notfound_only_when_nothing_qualifies` 
///
/// Check for `assertion`: ""NotFound although the previous node is old enough""
///
/// # Warning
///
/// Concrete playback tests combined with stubs or contracts is highly
/// experimental, and subject to change.
///
/// The original harness has stubs which are not applied to this test.
/// This may cause a mismatch of non-deterministic values if the stub
/// creates any non-deterministic value.
/// The execution path may also differ, which can be used to refine the stub
/// logic.

#[test]
fn kani_concrete_playback_c13_select_notfound_only_when_nothing_qualifies_3483380848938985797() {
    let concrete_vals: Vec<Vec<u8>> = vec![
        // 255
        vec![255],
        // 255
        vec![255],
        // 255
        vec![255],
        // 255
        vec![255],
        // 255
        vec![255],
        // 255
        vec![255],
        // 255
        vec![255],
        // 255
        vec![255],
        // 255
        vec![255],
        // 255
        vec![255],
        // 255
        vec![255],
        // 255
        vec![255],
        // 255
        vec![255],
        // 255
        vec![255],
        // 255
        vec![255],
        // 255
        vec![255],
        // 255
        vec![255],
        // 255
        vec![255],
        // 255
        vec![255],
        // 255
        vec![255],
        // 255
        vec![255],
        // 255
        vec![255],
        // 255
        vec![255],
        // 255
        vec![255],
        // 255
        vec![255],
        // 255
        vec![255],
        // 255
        vec![255],
        // 255
        vec![255],
        // 255
        vec![255],
        // 255
        vec![255],
        // 255
        vec![255],
        // 255
        vec![255],
        // 4294967295
        vec![255, 255, 255, 255],
        // 13835058055282165599ul
        vec![95, 7, 0, 0, 0, 0, 0, 192],
        // 18446744073709551615ul
        vec![255, 255, 255, 255, 255, 255, 255, 255],
        // 255
        vec![255],
        // 255
        vec![255],
        // 255
        vec![255],
        // 255
        vec![255],
        // 255
        vec![255],
        // 255
        vec![255],
        // 255
        vec![255],
        // 255
        vec![255],
        // 255
        vec![255],
        // 255
        vec![255],
        // 255
        vec![255],
        // 255
        vec![255],
        // 255
        vec![255],
        // 255
        vec![255],
        // 255
        vec![255],
        // 255
        vec![255],
        // 255
        vec![255],
        // 255
        vec![255],
        // 255
        vec![255],
        // 255
        vec![255],
        // 255
        vec![255],
        // 255
        vec![255],
        // 255
        vec![255],
        // 255
        vec![255],
        // 255
        vec![255],
        // 255
        vec![255],
        // 255
        vec![255],
        // 255
        vec![255],
        // 255
        vec![255],
        // 255
        vec![255],
        // 255
        vec![255],
        // 255
        vec![255],
        // 4294967295
        vec![255, 255, 255, 255],
        // 254
        vec![254],
        // 0
        vec![0],
        // 0
        vec![0],
        // 255
        vec![255],
        // 255
        vec![255],
        // 255
        vec![255],
        // 255
        vec![255],
        // 255
        vec![255],
        // 255
        vec![255],
        // 255
        vec![255],
        // 255
        vec![255],
        // 255
        vec![255],
        // 255
        vec![255],
        // 255
        vec![255],
        // 255
        vec![255],
        // 255
        vec![255],
        // 255
        vec![255],
        // 255
        vec![255],
        // 255
        vec![255],
        // 255
        vec![255],
        // 255
        vec![255],
        // 255
        vec![255],
        // 255
        vec![255],
        // 255
        vec![255],
        // 255
        vec![255],
        // 255
        vec![255],
        // 255
        vec![255],
        // 255
        vec![255],
        // 255
        vec![255],
        // 255
        vec![255],
        // 255
        vec![255],
        // 255
        vec![255],
        // 255
        vec![255],
        // 255
        vec![255],
        // 255
        vec![255],
        // 1
        vec![1],
        // 13835058055282165070ul
        vec![78, 5, 0, 0, 0, 0, 0, 192],
        // 18446744073709551615ul
        vec![255, 255, 255, 255, 255, 255, 255, 255],
        // 255
        vec![255],
        // 255
        vec![255],
        // 255
        vec![255],
        // 255
        vec![255],
        // 255
        vec![255],
        // 255
        vec![255],
        // 255
        vec![255],
        // 255
        vec![255],
        // 255
        vec![255],
        // 255
        vec![255],
        // 255
        vec![255],
        // 255
        vec![255],
        // 255
        vec![255],
        // 255
        vec![255],
        // 255
        vec![255],
        // 255
        vec![255],
        // 255
        vec![255],
        // 255
        vec![255],
        // 255
        vec![255],
        // 255
        vec![255],
        // 255
        vec![255],
        // 255
        vec![255],
        // 255
        vec![255],
        // 255
        vec![255],
        // 255
        vec![255],
        // 255
        vec![255],
        // 255
        vec![255],
        // 255
        vec![255],
        // 255
        vec![255],
        // 255
        vec![255],
        // 255
        vec![255],
        // 255
        vec![255],
        // 4294967295
        vec![255, 255, 255, 255],
        // 254
        vec![254],
        // 0
        vec![0],
        // 0
        vec![0],
        // 255
        vec![255],
        // 255
        vec![255],
        // 255
        vec![255],
        // 255
        vec![255],
        // 255
        vec![255],
        // 255
        vec![255],
        // 255
        vec![255],
        // 255
        vec![255],
        // 255
        vec![255],
        // 255
        vec![255],
        // 255
        vec![255],
        // 255
        vec![255],
        // 255
        vec![255],
        // 255
        vec![255],
        // 255
        vec![255],
        // 255
        vec![255],
        // 255
        vec![255],
        // 255
        vec![255],
        // 255
        vec![255],
        // 255
        vec![255],
        // 255
        vec![255],
        // 255
        vec![255],
        // 255
        vec![255],
        // 255
        vec![255],
        // 255
        vec![255],
        // 255
        vec![255],
        // 255
        vec![255],
        // 255
        vec![255],
        // 255
        vec![255],
        // 255
        vec![255],
        // 255
        vec![255],
        // 255
        vec![255],
        // 13835058055282165070ul
        vec![78, 5, 0, 0, 0, 0, 0, 192],
    ];
    kani::concrete_playback_run(concrete_vals, c13_select_notfound_only_when_nothing_qualifies);
}
