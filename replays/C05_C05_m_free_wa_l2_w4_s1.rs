// replay-of: property=C05 obligation=C05.m_free_wa_l2_w4_s1 crate=kani_core harness=c05::c05_m_free_wa_l2_w4_s1 rustflags=--cfg facebook_akd_verif
/// Test generated for harness `c05::c05_m_free_wa_l2_w4_s1` 
///
/// Check for `cover`: "cover condition: accepted"
///
/// # Warning
///
/// Concrete playback tests combined with stubs or contracts is highly
/// experimental, and subject to change.
///
/// The original harness has stubs which are not applied to this test.
/// This may cause a mismatch of non-deterministic values if the stub
/// creates any non-deterministic value.
/// The execution path may also differ, which can be used to refine the stub
/// logic.

#[test]
fn kani_concrete_playback_c05_m_free_wa_l2_w4_s1_18234978795504096683() {
    let concrete_vals: Vec<Vec<u8>> = vec![
        // 32768
        vec![0, 128],
        // 49152
        vec![0, 192],
        // 65535
        vec![255, 255],
        // 65535
        vec![255, 255],
        // 0
        vec![0, 0],
        // 0
        vec![0, 0, 0, 0],
        // 0
        vec![0],
        // 257
        vec![1, 1],
        // 0
        vec![0, 0, 0, 0],
        // 2
        vec![2, 0],
        // 16383
        vec![255, 63],
        // 1
        vec![1, 0, 0, 0],
        // 3
        vec![3, 0],
        // 1ul
        vec![1, 0, 0, 0, 0, 0, 0, 0],
    ];
    kani::concrete_playback_run(concrete_vals, c05_m_free_wa_l2_w4_s1);
}
