// replay-of: property=C06 obligation=C06.sound_exp_n3_v1_c1 crate=kani_core harness=c06::c06_sound_exp_n3_v1_c1 rustflags=--cfg facebook_akd_verif
/// Test generated for harness `c06::c06_sound_exp_n3_v1_c1` 
///
/// Check for `assertion`: ""lookup accepted for a version that is not the latest""
///
/// # Warning
///
/// Concrete playback tests combined with stubs or contracts is highly
/// experimental, and subject to change.
///
/// The original harness has stubs which are not applied to this test.
/// This may cause a mismatch of non-deterministic values if the stub
/// creates any non-deterministic value.
/// The execution path may also differ, which can be used to refine the stub
/// logic.

#[test]
fn kani_concrete_playback_c06_sound_exp_n3_v1_c1_12130119281816501798() {
    let concrete_vals: Vec<Vec<u8>> = vec![
        // 3
        vec![3],
        // 3
        vec![3],
        // 3
        vec![3],
        // 3
        vec![3],
        // 3
        vec![3],
        // 3
        vec![3],
        // 3
        vec![3],
        // 3
        vec![3],
        // 255
        vec![255],
        // 255
        vec![255],
        // 255
        vec![255],
        // 255
        vec![255],
        // 255
        vec![255],
        // 255
        vec![255],
        // 255
        vec![255],
        // 255
        vec![255],
        // 3ul
        vec![3, 0, 0, 0, 0, 0, 0, 0],
        // 253
        vec![253],
        // 253
        vec![253],
        // 253
        vec![253],
        // 252
        vec![252],
        // 252
        vec![252],
        // 252
        vec![252],
        // 1ul
        vec![1, 0, 0, 0, 0, 0, 0, 0],
        // 4ul
        vec![4, 0, 0, 0, 0, 0, 0, 0],
        // 6ul
        vec![6, 0, 0, 0, 0, 0, 0, 0],
        // 7ul
        vec![7, 0, 0, 0, 0, 0, 0, 0],
        // 4ul
        vec![4, 0, 0, 0, 0, 0, 0, 0],
        // 253
        vec![253],
        // 2ul
        vec![2, 0, 0, 0, 0, 0, 0, 0],
        // 0
        vec![0],
        // 65314
        vec![34, 255],
        // 1
        vec![1],
        // 0
        vec![0],
        // 65283
        vec![3, 255],
        // 0
        vec![0],
        // 0
        vec![0],
        // 770
        vec![2, 3],
        // 252
        vec![252],
    ];
    kani::concrete_playback_run(concrete_vals, c06_sound_exp_n3_v1_c1);
}
