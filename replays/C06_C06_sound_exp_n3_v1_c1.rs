// replay-of: property=C06 obligation=C06.sound_exp_n3_v1_c1 crate=kani_core harness=c06::c06_sound_exp_n3_v1_c1 rustflags=--cfg facebook_akd_verif
/// Test generated for harness `c06::c06_sound_exp_n3_v1_c1` 
///
/// Check for `assertion`: ""lookup accepted for a version that is not the latest""
///
/// # Warning
///
/// Concrete playback tests combined with stubs or contracts is highly
/// experimental, and subject to change.
///
/// The original harness has stubs which are not applied to this test.
/// This may cause a mismatch of non-deterministic values if the stub
/// creates any non-deterministic value.
/// The execution path may also differ, which can be used to refine the stub
/// logic.

#[test]
fn kani_concrete_playback_c06_sound_exp_n3_v1_c1_6098677359832023142() {
    let concrete_vals: Vec<Vec<u8>> = vec![
        // 127
        vec![127],
        // 127
        vec![127],
        // 127
        vec![127],
        // 127
        vec![127],
        // 127
        vec![127],
        // 127
        vec![127],
        // 127
        vec![127],
        // 127
        vec![127],
        // 0
        vec![0],
        // 0
        vec![0],
        // 0
        vec![0],
        // 0
        vec![0],
        // 0
        vec![0],
        // 0
        vec![0],
        // 0
        vec![0],
        // 0
        vec![0],
        // 3ul
        vec![3, 0, 0, 0, 0, 0, 0, 0],
        // 252
        vec![252],
        // 252
        vec![252],
        // 188
        vec![188],
        // 241
        vec![241],
        // 241
        vec![241],
        // 241
        vec![241],
        // 1ul
        vec![1, 0, 0, 0, 0, 0, 0, 0],
        // 4ul
        vec![4, 0, 0, 0, 0, 0, 0, 0],
        // 7ul
        vec![7, 0, 0, 0, 0, 0, 0, 0],
        // 7ul
        vec![7, 0, 0, 0, 0, 0, 0, 0],
        // 18446744073709551615ul
        vec![255, 255, 255, 255, 255, 255, 255, 255],
        // 18446744073709551615ul
        vec![255, 255, 255, 255, 255, 255, 255, 255],
        // 4ul
        vec![4, 0, 0, 0, 0, 0, 0, 0],
        // 252
        vec![252],
        // 2ul
        vec![2, 0, 0, 0, 0, 0, 0, 0],
        // 0
        vec![0],
        // 34
        vec![34, 0],
        // 7
        vec![7, 0],
        // 0
        vec![0],
        // 34
        vec![34, 0],
        // 7
        vec![7, 0],
        // 0
        vec![0],
        // 32514
        vec![2, 127],
        // 241
        vec![241],
    ];
    kani::concrete_playback_run(concrete_vals, c06_sound_exp_n3_v1_c1);
}
