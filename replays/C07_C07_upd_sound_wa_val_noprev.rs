// replay-of: property=C07 obligation=C07.upd_sound_wa_val_noprev crate=kani_core harness=c07upd::c07_upd_sound_wa_val_noprev rustflags=--cfg facebook_akd_verif
/// Test generated for harness `c07upd::c07_upd_sound_wa_val_noprev` 
///
/// Check for `assertion`: ""update proof for a version > 1 accepted without the proof that the previous version was retired""
///
/// # Warning
///
/// Concrete playback tests combined with stubs or contracts is highly
/// experimental, and subject to change.
///
/// The original harness has stubs which are not applied to this test.
/// This may cause a mismatch of non-deterministic values if the stub
/// creates any non-deterministic value.
/// The execution path may also differ, which can be used to refine the stub
/// logic.

#[test]
fn kani_concrete_playback_c07_upd_sound_wa_val_noprev_14704051743519022048() {
    let concrete_vals: Vec<Vec<u8>> = vec![
        // 127
        vec![127],
        // 128
        vec![128],
        // 127
        vec![127],
        // 127
        vec![127],
        // 127
        vec![127],
        // 127
        vec![127],
        // 127
        vec![127],
        // 127
        vec![127],
        // 131
        vec![131],
        // 131
        vec![131],
        // 131
        vec![131],
        // 131
        vec![131],
        // 131
        vec![131],
        // 131
        vec![131],
        // 131
        vec![131],
        // 131
        vec![131],
        // 2ul
        vec![2, 0, 0, 0, 0, 0, 0, 0],
        // 255
        vec![255],
        // 254
        vec![254],
        // 254
        vec![254],
        // 253
        vec![253],
        // 253
        vec![253],
        // 253
        vec![253],
        // 1ul
        vec![1, 0, 0, 0, 0, 0, 0, 0],
        // 7ul
        vec![7, 0, 0, 0, 0, 0, 0, 0],
        // 1535ul
        vec![255, 5, 0, 0, 0, 0, 0, 0],
        // 0
        vec![0],
        // 2ul
        vec![2, 0, 0, 0, 0, 0, 0, 0],
        // 7ul
        vec![7, 0, 0, 0, 0, 0, 0, 0],
        // 254
        vec![254],
        // 0
        vec![0],
        // 33570
        vec![34, 131],
        // 1
        vec![1],
        // 253
        vec![253],
    ];
    kani::concrete_playback_run(concrete_vals, c07_upd_sound_wa_val_noprev);
}
