// replay-of: property=C05 obligation=C05.nm_wa_l2_w4_s3r crate=kani_core harness=c05::c05s_nm_wa_l2_w4_s3r rustflags=--cfg facebook_akd_verif
/// Test generated for harness `c05::c05s_nm_wa_l2_w4_s3r` 
///
/// Check for `assertion`: ""non-membership proof accepted for a label that is in the tree""
///
/// # Warning
///
/// Concrete playback tests combined with stubs or contracts is highly
/// experimental, and subject to change.
///
/// The original harness has stubs which are not applied to this test.
/// This may cause a mismatch of non-deterministic values if the stub
/// creates any non-deterministic value.
/// The execution path may also differ, which can be used to refine the stub
/// logic.

#[test]
fn kani_concrete_playback_c05s_nm_wa_l2_w4_s3r_18312582606448105149() {
    let concrete_vals: Vec<Vec<u8>> = vec![
        // 57344
        vec![0, 224],
        // 16640
        vec![0, 65],
        // 61440
        vec![0, 240],
        // 16640
        vec![0, 65],
        // 61440
        vec![0, 240],
    ];
    kani::concrete_playback_run(concrete_vals, c05s_nm_wa_l2_w4_s3r);
}
