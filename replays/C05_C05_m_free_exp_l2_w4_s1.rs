// replay-of: property=C05 obligation=C05.m_free_exp_l2_w4_s1 crate=kani_core harness=c05::c05_m_free_exp_l2_w4_s1 rustflags=--cfg facebook_akd_verif
/// Test generated for harness `c05::c05_m_free_exp_l2_w4_s1` 
///
/// Check for `cover`: "cover condition: accepted"
///
/// # Warning
///
/// Concrete playback tests combined with stubs or contracts is highly
/// experimental, and subject to change.
///
/// The original harness has stubs which are not applied to this test.
/// This may cause a mismatch of non-deterministic values if the stub
/// creates any non-deterministic value.
/// The execution path may also differ, which can be used to refine the stub
/// logic.

#[test]
fn kani_concrete_playback_c05_m_free_exp_l2_w4_s1_10083053543706665443() {
    let concrete_vals: Vec<Vec<u8>> = vec![
        // 0
        vec![0, 0],
        // 4096
        vec![0, 16],
        // 16384
        vec![0, 64],
        // 16384
        vec![0, 64],
        // 0
        vec![0, 0],
        // 0
        vec![0, 0, 0, 0],
        // 0
        vec![0],
        // 0
        vec![0, 0],
        // 3
        vec![3, 0, 0, 0],
        // 3
        vec![3, 0],
        // 256
        vec![0, 1],
        // 0
        vec![0, 0, 0, 0],
        // 0
        vec![0, 0],
        // 1ul
        vec![1, 0, 0, 0, 0, 0, 0, 0],
    ];
    kani::concrete_playback_run(concrete_vals, c05_m_free_exp_l2_w4_s1);
}
