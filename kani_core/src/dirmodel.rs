//! Honest directory state for ONE AkdLabel and the membership oracle used by the C06/C07
//! harnesses.
//!
//! The tree an honest directory publishes (akd_core/src/lib.rs, "Inserting into the Merkle Tree")
//! holds, for a label with versions 1..=n updated in epochs ep[1] < .. < ep[n]:
//!   fresh(v): node label VRF(label, fresh, v), leaf hash H(commit(value_v, nonce_v), ep[v])   v = 1..=n
//!   stale(v): node label VRF(label, stale, v), leaf hash H(stale_value, ep[v+1])             v = 1..n
//! plus leaves of other labels, whose node labels are never VRF outputs for this label.
//!
//! "Natively" below means the build `cargo kani playback` makes (cfg(kani) AND cfg(test)); the
//! verification build is cfg(kani) without cfg(test).
//!
//! Compositional step (justified by C05, within its bounds): against the root of a canonical
//! trie, `verify_membership` accepts (label, hash) iff it is a node of the tree and
//! `verify_nonmembership` accepts a label iff it is not a leaf. Under Kani the two functions are
//! therefore *stubbed* by this oracle (`-Z stubbing`, private paths), so the harnesses decide the
//! lookup / history verifier logic on top of it. Natively (counterexample replay) nothing is
//! stubbed: the harness then supplies real proofs from the reference trie over exactly these
//! leaves, so the real verifiers run end to end.
#![allow(static_mut_refs)]
use crate::model::{self, dg, name_of, vrf_label};
use akd_core::hash::Digest;
use akd_core::verify::VerificationError;
use akd_core::{AkdValue, AzksValue, Configuration, MembershipProof, NodeLabel, NonMembershipProof};

pub const NMAX: usize = 3;
/// number of leaves of the native replay tree: fresh(1..=3), stale(1..=2) or bystander padding
pub const NLEAF: usize = 2 * NMAX - 1;

#[derive(Clone, Copy)]
pub struct Honest {
    pub n: u64,
    /// one-byte values / nonces, epochs; index v-1
    pub val: [u8; NMAX],
    pub nonce: [u8; NMAX],
    pub ep: [u64; NMAX],
    /// digest names of the leaf hashes (as hashed into the parent)
    pub fresh_hash: [u16; NMAX],
    pub stale_hash: [u16; NMAX],
    /// epoch carried by the stale leaf of version v (index v-1): ep[v] honestly, `pep` if perturbed
    pub stale_ep: [u64; NMAX],
    /// perturbation for the "late / missing stale marker" obligation: stale(pv) is absent
    /// (pmode 1) or carries epoch `pep` (pmode 2); pmode 0 = honest
    pub pmode: u8,
    pub pv: u64,
}

pub static mut H: Honest = Honest { n: 0, val: [0; NMAX], nonce: [0; NMAX], ep: [0; NMAX], fresh_hash: [0; NMAX], stale_hash: [0; NMAX], stale_ep: [0; NMAX], pmode: 0, pv: 0 };

pub fn value_of(b: u8) -> AkdValue {
    AkdValue(vec![b])
}

/// Compute the leaf hashes of the honest state through the configuration under test.
pub fn install<TC: Configuration>(n: u64, val: [u8; NMAX], nonce: [u8; NMAX], ep: [u64; NMAX], pmode: u8, pv: u64, pep: u64) {
    let mut h = Honest { n, val, nonce, ep, fresh_hash: [0; NMAX], stale_hash: [0; NMAX], stale_ep: [0; NMAX], pmode, pv };
    let mut v = 0;
    while v < NMAX {
        if (v as u64) < n {
            let lh = TC::hash_leaf_with_value(&value_of(val[v]), ep[v], &[nonce[v]]);
            h.fresh_hash[v] = name_of(&lh.0);
            if (v as u64) + 1 < n {
                let e = if pmode == 2 && pv == v as u64 + 1 { pep } else { ep[v + 1] };
                let sh = TC::hash_leaf_with_commitment(TC::stale_azks_value(), e);
                h.stale_hash[v] = name_of(&sh.0);
                h.stale_ep[v] = e;
            }
        }
        v += 1;
    }
    unsafe {
        H = h;
    }
}

/// Layer-2 variant: no hashing; the leaf hashes are given (pairwise distinct symbolic names).
pub fn install_abstract(n: u64, val: [u8; NMAX], nonce: [u8; NMAX], ep: [u64; NMAX], fresh_hash: [u16; NMAX], stale_hash: [u16; NMAX], pmode: u8, pv: u64, pep: u64) {
    let mut stale_ep = [0u64; NMAX];
    let mut v = 0;
    while v + 1 < NMAX {
        stale_ep[v] = if pmode == 2 && pv == v as u64 + 1 { pep } else { ep[v + 1] };
        v += 1;
    }
    unsafe {
        H = Honest { n, val, nonce, ep, fresh_hash, stale_hash, stale_ep, pmode, pv };
    }
}

/// is (label, hash) a leaf of the honest tree?
pub fn is_leaf(label: &NodeLabel, hash: &AzksValue) -> bool {
    let h = unsafe { H };
    let hn = name_of(&hash.0);
    let mut found = false;
    let mut v = 0;
    while v < NMAX {
        let ver = v as u64 + 1;
        if ver <= h.n {
            if crate::trie::same_label(label, &vrf_label(true, ver)) && hn == h.fresh_hash[v] {
                found = true;
            }
            if ver < h.n && !(h.pmode == 1 && h.pv == ver) {
                if crate::trie::same_label(label, &vrf_label(false, ver)) && hn == h.stale_hash[v] {
                    found = true;
                }
            }
        }
        v += 1;
    }
    found
}

/// is `label` the label of some leaf of the honest tree?
pub fn is_leaf_label(label: &NodeLabel) -> bool {
    let h = unsafe { H };
    let mut found = false;
    let mut v = 0;
    while v < NMAX {
        let ver = v as u64 + 1;
        if ver <= h.n {
            if crate::trie::same_label(label, &vrf_label(true, ver)) {
                found = true;
            }
            if ver < h.n && !(h.pmode == 1 && h.pv == ver) && crate::trie::same_label(label, &vrf_label(false, ver)) {
                found = true;
            }
        }
        v += 1;
    }
    found
}

/// Kani stub for akd_core::verify::base::verify_membership
pub fn vm_oracle<TC: Configuration>(_root_hash: Digest, proof: &MembershipProof) -> Result<(), VerificationError> {
    if is_leaf(&proof.label, &proof.hash_val) {
        Ok(())
    } else {
        Err(VerificationError::MembershipProof(String::new()))
    }
}

/// Kani stub for akd_core::verify::base::verify_nonmembership
pub fn vnm_oracle<TC: Configuration>(_root_hash: Digest, proof: &NonMembershipProof) -> Result<(), VerificationError> {
    if is_leaf_label(&proof.label) {
        Err(VerificationError::NonMembershipProof(String::new()))
    } else {
        Ok(())
    }
}

// ------------------------------------------------------------------------------------------------
// Proof material. Under Kani the tree proofs are placeholders (the oracle ignores everything but
// label and hash); natively they are the real proofs from the reference trie.

#[cfg(all(kani, not(test)))]
pub fn root_hash<TC: Configuration>() -> Digest {
    dg(model::RAW0 + 7)
}

#[cfg(all(kani, not(test)))]
pub fn membership_proof<TC: Configuration>(label: NodeLabel, hash: AzksValue) -> MembershipProof {
    MembershipProof { label, hash_val: hash, sibling_proofs: Vec::new() }
}

#[cfg(all(kani, not(test)))]
pub fn nonmembership_proof<TC: Configuration>(label: NodeLabel) -> NonMembershipProof {
    let e = crate::trie::empty_elem::<TC>();
    NonMembershipProof {
        label,
        longest_prefix: NodeLabel::root(),
        longest_prefix_children: [e, e],
        longest_prefix_membership_proof: MembershipProof { label: NodeLabel::root(), hash_val: AzksValue(dg(0)), sibling_proofs: Vec::new() },
    }
}

#[cfg(any(not(kani), test))]
mod native {
    use super::*;
    use crate::trie::{key_label, key_of, o_is_prefix, Tree, Walk};

    /// the honest leaves plus bystander padding, sorted by key
    fn tree<TC: Configuration>() -> Tree<TC, NLEAF> {
        let h = unsafe { H };
        let mut leaves: Vec<(u16, AzksValue)> = Vec::new();
        for v in 0..NMAX {
            let ver = v as u64 + 1;
            if ver <= h.n {
                leaves.push((key_of(&vrf_label(true, ver)), AzksValue(dg(h.fresh_hash[v]))));
                if ver < h.n && !(h.pmode == 1 && h.pv == ver) {
                    leaves.push((key_of(&vrf_label(false, ver)), AzksValue(dg(h.stale_hash[v]))));
                }
            }
        }
        // bystanders: other labels' leaves (byte 1 >= 0xc0 is never a VRF output for this label)
        let mut b = 0u16;
        while leaves.len() < NLEAF {
            let key = ((b.wrapping_mul(0x35) & 0xff) << 8) | (0xc0 + b);
            if !leaves.iter().any(|(k, _)| *k == key) {
                leaves.push((key, AzksValue(dg(model::RAW0 + 100 + b))));
            }
            b += 1;
        }
        leaves.sort_by_key(|(k, _)| *k);
        let mut keys = [0u16; NLEAF];
        let mut vals = [AzksValue([0u8; 32]); NLEAF];
        for i in 0..NLEAF {
            keys[i] = leaves[i].0;
            vals[i] = leaves[i].1;
        }
        Tree::<TC, NLEAF>::build(keys, 256, vals)
    }

    pub fn root_hash<TC: Configuration>() -> Digest {
        tree::<TC>().root_hash
    }

    pub fn membership_proof<TC: Configuration>(label: NodeLabel, hash: AzksValue) -> MembershipProof {
        let t = tree::<TC>();
        let key = key_of(&label);
        let mut w = Walk::start(&t);
        for _ in 0..NLEAF + 1 {
            if w.at.lo == w.at.hi && !w.at.is_root {
                break;
            }
            let bitpos = w.at.label.label_len;
            let right = (key >> (15 - bitpos)) & 1 == 1;
            w.step(&t, right);
            if !w.valid {
                break;
            }
        }
        if w.valid && crate::trie::same_label(&w.at.label, &label) {
            let mut p = w.membership_proof();
            p.hash_val = hash; // the claimed hash (verification fails natively if it is not the leaf's)
            p
        } else {
            MembershipProof { label, hash_val: hash, sibling_proofs: Vec::new() }
        }
    }

    pub fn nonmembership_proof<TC: Configuration>(label: NodeLabel) -> NonMembershipProof {
        let t = tree::<TC>();
        let q = key_of(&label);
        let mut w = Walk::start(&t);
        for _ in 0..NLEAF + 1 {
            let (elems, ivs) = match t.children(&w.at) {
                Some(x) => x,
                None => break,
            };
            let bitpos = w.at.label.label_len;
            let right = (q >> (15 - bitpos)) & 1 == 1;
            let c = if right { 1 } else { 0 };
            let cl = elems[c].label;
            if ivs[c].0 != usize::MAX && o_is_prefix(key_of(&cl), cl.label_len, q, 256) && cl.label_len < 256 {
                w.step(&t, right);
            } else {
                break;
            }
        }
        let children = t.children(&w.at).map(|x| x.0).unwrap_or([crate::trie::empty_elem::<TC>(), crate::trie::empty_elem::<TC>()]);
        let _ = key_label;
        NonMembershipProof { label, longest_prefix: w.at.label, longest_prefix_children: children, longest_prefix_membership_proof: w.membership_proof() }
    }
}
#[cfg(any(not(kani), test))]
pub use native::{membership_proof, nonmembership_proof, root_hash};
