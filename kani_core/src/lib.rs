//! Kani harnesses over the real akd_core crate (path dependency on /repo/akd_core).
//! Every `#[kani::proof]` here compiles the *current* sources of /repo/akd_core; nothing is cached.
#![allow(dead_code)]
#![allow(clippy::all)]

pub mod util;
pub mod c17;
pub mod model;
pub mod trie;
pub mod strie;
pub mod c05;
pub mod dirmodel;
pub mod c06;
pub mod marker_table;
pub mod c07;
pub mod c07l2;
pub mod c07l1;
pub mod c07shape;
pub mod c07upd;
pub mod c19;
pub mod c19v;
pub mod selftest;
