//! C06/C07, layer 1: each private verification helper of akd_core::verify::base (reached through
//! the facebook_akd_verif hooks) agrees with its specification over the honest tree
//! (crate::c07l2::spec_*), for every symbolic input. The tree-level verifiers are the membership
//! oracle of `dirmodel` (compositional on C05); hashes are the ideal hash model, the VRF is ideal.
#![cfg(kani)]
use crate::c07l2::{any_label, any_leaf_hash, honest_state, spec_existence, spec_existence_with_commitment, spec_existence_with_val, spec_nonexistence};
use crate::dirmodel;
use crate::model::{dg, ModelEXP, ModelWA};
use akd_core::verify::base::verif_hooks as real;
use akd_core::{AkdLabel, AkdValue, AzksValue, Configuration, VersionFreshness};

fn any_fresh() -> VersionFreshness {
    if kani::any() { VersionFreshness::Fresh } else { VersionFreshness::Stale }
}
fn any_bytes(len: usize) -> Vec<u8> {
    match len { 0 => Vec::new(), 1 => vec![kani::any()], _ => vec![kani::any(), kani::any()] }
}

fn l1_with_val<TC: Configuration>(vlen: usize, nlen: usize) {
    let (_n, _val, _ep) = honest_state::<TC>(0, 7, false);
    let value = AkdValue(any_bytes(vlen));
    let nonce = any_bytes(nlen);
    let epoch: u64 = kani::any();
    let fr = any_fresh();
    let version: u64 = kani::any();
    let mp = dirmodel::membership_proof::<TC>(any_label(), any_leaf_hash());
    let l = AkdLabel(Vec::new());
    let a = real::verify_existence_with_val::<TC>(&[], dirmodel::root_hash::<TC>(), &l, &value, epoch, &nonce, fr, version, &[], &mp).is_ok();
    let b = spec_existence_with_val::<TC>(&[], [0u8; 32], &l, &value, epoch, &nonce, fr, version, &[], &mp).is_ok();
    assert!(a == b, "verify_existence_with_val differs from its specification over the honest tree");
    kani::cover!(a || vlen != 1 || nlen != 1);
    kani::cover!(!a);
}

fn l1_existence<TC: Configuration>(pmode: u8) {
    let (_n, _val, _ep) = honest_state::<TC>(pmode, 7, false);
    let fr = any_fresh();
    let version: u64 = kani::any();
    let mp = dirmodel::membership_proof::<TC>(any_label(), any_leaf_hash());
    let l = AkdLabel(Vec::new());
    let a = real::verify_existence::<TC>(&[], dirmodel::root_hash::<TC>(), &l, fr, version, &[], &mp).is_ok();
    let b = spec_existence::<TC>(&[], [0u8; 32], &l, fr, version, &[], &mp).is_ok();
    assert!(a == b, "verify_existence differs from its specification over the honest tree");
    kani::cover!(a && fr == VersionFreshness::Stale);
    kani::cover!(a && fr == VersionFreshness::Fresh);
    kani::cover!(!a);
}

fn l1_with_commitment<TC: Configuration>(pmode: u8) {
    let (_n, _val, _ep) = honest_state::<TC>(pmode, 7, false);
    let fr = any_fresh();
    let version: u64 = kani::any();
    let epoch: u64 = kani::any();
    let mp = dirmodel::membership_proof::<TC>(any_label(), any_leaf_hash());
    let l = AkdLabel(Vec::new());
    // the history verifier only ever passes the configuration's stale commitment
    let c = TC::stale_azks_value();
    let a = real::verify_existence_with_commitment::<TC>(&[], dirmodel::root_hash::<TC>(), &l, c, epoch, fr, version, &[], &mp).is_ok();
    let b = spec_existence_with_commitment::<TC>(&[], [0u8; 32], &l, c, epoch, fr, version, &[], &mp).is_ok();
    assert!(a == b, "verify_existence_with_commitment differs from its specification over the honest tree");
    kani::cover!(a);
    kani::cover!(!a);
}

fn l1_nonexistence<TC: Configuration>(pmode: u8) {
    let (_n, _val, _ep) = honest_state::<TC>(pmode, 7, false);
    let fr = any_fresh();
    let version: u64 = kani::any();
    let nmp = dirmodel::nonmembership_proof::<TC>(any_label());
    let l = AkdLabel(Vec::new());
    let a = real::verify_nonexistence::<TC>(&[], dirmodel::root_hash::<TC>(), &l, fr, version, &[], &nmp).is_ok();
    let b = spec_nonexistence::<TC>(&[], [0u8; 32], &l, fr, version, &[], &nmp).is_ok();
    assert!(a == b, "verify_nonexistence differs from its specification over the honest tree");
    kani::cover!(a && fr == VersionFreshness::Stale);
    kani::cover!(a && fr == VersionFreshness::Fresh);
    kani::cover!(!a);
}

macro_rules! l1 {
    ($name:ident, $f:ident, $tc:ty $(, $a:expr)*) => {
        #[kani::proof]
        #[kani::unwind(9)]
        #[kani::stub(alloc::fmt::format, crate::util::format_stub)]
        #[kani::stub(akd_core::verify::base::verify_membership, crate::dirmodel::vm_oracle)]
        #[kani::stub(akd_core::verify::base::verify_nonmembership, crate::dirmodel::vnm_oracle)]
        fn $name() {
            $f::<$tc>($($a),*);
        }
    };
}
l1!(l1_with_val_wa_v1_c1, l1_with_val, ModelWA, 1, 1);
l1!(l1_with_val_wa_v0_c1, l1_with_val, ModelWA, 0, 1);
l1!(l1_with_val_wa_v2_c1, l1_with_val, ModelWA, 2, 1);
l1!(l1_with_val_wa_v1_c0, l1_with_val, ModelWA, 1, 0);
l1!(l1_with_val_wa_v1_c2, l1_with_val, ModelWA, 1, 2);
l1!(l1_with_val_exp_v1_c1, l1_with_val, ModelEXP, 1, 1);
l1!(l1_with_val_exp_v0_c1, l1_with_val, ModelEXP, 0, 1);
l1!(l1_with_val_exp_v1_c2, l1_with_val, ModelEXP, 1, 2);
l1!(l1_existence_wa, l1_existence, ModelWA, 0);
l1!(l1_existence_wa_missing, l1_existence, ModelWA, 1);
l1!(l1_existence_exp, l1_existence, ModelEXP, 0);
l1!(l1_with_commitment_wa, l1_with_commitment, ModelWA, 0);
l1!(l1_with_commitment_wa_late, l1_with_commitment, ModelWA, 2);
l1!(l1_with_commitment_exp, l1_with_commitment, ModelEXP, 0);
l1!(l1_with_commitment_exp_late, l1_with_commitment, ModelEXP, 2);
l1!(l1_nonexistence_wa, l1_nonexistence, ModelWA, 0);
l1!(l1_nonexistence_wa_missing, l1_nonexistence, ModelWA, 1);
l1!(l1_nonexistence_exp, l1_nonexistence, ModelEXP, 0);

include!("playback_c07l1.rs");
