//! Ideal primitives: two `impl Configuration` whose hash functions are *injective constructors*
//! (a hash-consing table), against which the real generic verifier code of akd_core is compiled.
//!
//! * A digest is 32 bytes whose first two bytes are a 16-bit *name* and whose other bytes are 0.
//!   Names `1..=CAP` are hash outputs (1 + index of the canonical table entry); name 0 (the
//!   all-zero digest) and names `>= RAW0` are raw values that are not the output of any hash call.
//! * Every hash-like method of `Configuration` appends one entry (tag + arguments) to the table
//!   and returns the name of the *first* entry equal to it, so equal arguments give equal
//!   digests and different arguments give different digests: "for every collision-free hash".
//! * A hash call one of whose digest arguments names a table slot that has not been filled yet
//!   would be a digest the adversary predicted before it was computed (a cycle / pre-image);
//!   such executions are excluded by assumption (negligible for a random oracle).
//! * `ModelWA` mirrors the shape of `WhatsAppV1Configuration` (label values are hashed, the root
//!   hash is H(root value), empty label ([1;32], 0), empty node hash and stale value are hash
//!   outputs); `ModelEXP` mirrors `ExperimentalConfiguration` (raw 36-byte label values, the
//!   root hash is the root value itself, empty label ([1,0,..], 0), empty node hash = stale
//!   value = the all-zero digest which is *not* a hash output).
//! The byte-level blake3 formulas of the shipped configurations are outside the claim.
#![allow(static_mut_refs)]

use akd_core::hash::Digest;
use akd_core::{
    AkdLabel, AkdValue, AzksValue, AzksValueWithEpoch, Configuration, NodeLabel, VersionFreshness,
};

#[cfg(all(kani, not(test)))]
pub const CAP: usize = 40;
/// native replay runs the real tree verifiers instead of the membership oracle and rebuilds the
/// reference trie for every proof: many more hash calls (equal entries are not appended there)
#[cfg(any(not(kani), test))]
pub const CAP: usize = 4096;
/// first raw (non-output) name
pub const RAW0: u16 = 0x4000;

#[derive(Clone, Copy, PartialEq, Eq)]
pub struct Entry {
    pub tag: u8,
    pub a: u16,
    pub b: u16,
    pub la_len: u32,
    pub la: u64,
    pub lb_len: u32,
    pub lb: u64,
    pub x: u64,
}

pub const NOENT: Entry = Entry { tag: 0, a: 0, b: 0, la_len: 0, la: 0, lb_len: 0, lb: 0, x: 0 };

pub const T_PARENT: u8 = 1;
pub const T_ROOT: u8 = 2;
pub const T_LEAFC: u8 = 3;
pub const T_COMMIT: u8 = 4;
pub const T_LABELV: u8 = 5;
pub const T_BYTES: u8 = 6;
/// marks "this label slot holds the name of a hashed label value" (ModelWA)
pub const LV_HASHED: u32 = 0xffff_fff0;

pub static mut TAB: [Entry; CAP] = [NOENT; CAP];
pub static mut N: usize = 0;
/// set when the table overflowed (harness must assert it stays false)
pub static mut OVERFLOW: bool = false;

#[cfg(all(kani, not(test)))]
fn exclude_path(_why: &'static str) {
    kani::assume(false);
}
#[cfg(any(not(kani), test))]
fn exclude_path(why: &'static str) {
    // native replay: the solver never produces values on an excluded path
    panic!("model: excluded path reached natively ({})", why);
}

pub fn reset() {
    unsafe {
        N = 0;
        OVERFLOW = false;
    }
}

pub fn table_len() -> usize {
    unsafe { N }
}

/// Append the entry, return the name of the first equal entry.
pub fn intern(e: Entry) -> u16 {
    unsafe {
        let n = N;
        if n >= CAP {
            OVERFLOW = true;
            exclude_path("hash table capacity");
            return RAW0 - 1;
        }
        // digest arguments must not name a slot that is not filled yet
        if is_future(e.a, n) || is_future(e.b, n) {
            exclude_path("digest argument names an unfilled slot");
        }
        TAB[n] = e;
        N = n + 1;
        // straight-line scan of the filled part (no loop: keeps CBMC's unwind bound independent
        // of the table capacity); the first equal entry wins
        #[cfg(any(not(kani), test))]
        {
            let mut j = 0;
            while j < n {
                if TAB[j] == e {
                    N = n; // native: do not keep the duplicate
                    return (j + 1) as u16;
                }
                j += 1;
            }
            return (n + 1) as u16;
        }
        #[allow(unreachable_code)]
        let mut found = n;
        macro_rules! probe {
            ($($j:expr),*) => { $( if $j < n && found == n && TAB[$j] == e { found = $j; } )* };
        }
        probe!(0, 1, 2, 3, 4, 5, 6, 7, 8, 9, 10, 11, 12, 13, 14, 15, 16, 17, 18, 19, 20, 21, 22, 23, 24, 25, 26, 27, 28, 29,
               30, 31, 32, 33, 34, 35, 36, 37, 38, 39);
        (found + 1) as u16
    }
}

#[inline(always)]
fn is_future(name: u16, n: usize) -> bool {
    name >= 1 && (name as usize) > n && name < RAW0
}

#[inline(always)]
pub fn dg(name: u16) -> Digest {
    let mut d = [0u8; 32];
    d[0] = (name >> 8) as u8;
    d[1] = name as u8;
    d
}

/// Decode a digest; digests outside the compact form are outside the bound of the harnesses.
#[inline(always)]
pub fn name_of(d: &[u8]) -> u16 {
    assert!(d.len() == 32);
    let w0 = be64(d, 0) & 0x0000_ffff_ffff_ffff;
    if w0 != 0 || be64(d, 8) != 0 || be64(d, 16) != 0 || be64(d, 24) != 0 {
        exclude_path("digest is not a model name");
    }
    ((d[0] as u16) << 8) | d[1] as u16
}

#[inline(always)]
fn be64(b: &[u8], o: usize) -> u64 {
    ((b[o] as u64) << 56) | ((b[o + 1] as u64) << 48) | ((b[o + 2] as u64) << 40) | ((b[o + 3] as u64) << 32)
        | ((b[o + 4] as u64) << 24) | ((b[o + 5] as u64) << 16) | ((b[o + 6] as u64) << 8) | (b[o + 7] as u64)
}

/// Decode a 36-byte raw label value (4 bytes big-endian length, 32 bytes value) into
/// (length, top 8 bytes); labels whose bytes 8.. are non-zero are outside the bound.
#[inline(always)]
fn raw_label(b: &[u8]) -> (u32, u64) {
    assert!(b.len() == 36);
    let len = ((b[0] as u32) << 24) | ((b[1] as u32) << 16) | ((b[2] as u32) << 8) | b[3] as u32;
    let top = be64(b, 4);
    let (t1, t2, t3) = (be64(b, 12), be64(b, 20), be64(b, 28));
    let zero_tail = t1 == 0 && t2 == 0 && t3 == 0;
    // the empty label of WhatsApp ([1;32], 0) is the one label with a non-zero tail
    let ones = 0x0101_0101_0101_0101u64;
    let wa_empty = len == 0 && top == ones && t1 == ones && t2 == ones && t3 == ones;
    if !zero_tail && !wa_empty {
        exclude_path("label is not in the modelled encoding");
    }
    (len, top)
}

/// label argument of a parent hash: 32 bytes = hashed label value (name), 36 bytes = raw label
#[inline(always)]
fn label_arg(b: &[u8]) -> (u32, u64) {
    if b.len() == 32 {
        // hashed label value (ModelWA encoding): tag 0xAB, length, top 8 bytes, zero tail
        if b[0] != 0xAB || be64(b, 13) != 0 || be64(b, 21) != 0 || b[29] != 0 || b[30] != 0 || b[31] != 0 {
            exclude_path("hashed label is not in the modelled encoding");
        }
        let len = ((b[1] as u32) << 24) | ((b[2] as u32) << 16) | ((b[3] as u32) << 8) | b[4] as u32;
        (len ^ 0x8000_0000, be64(b, 5))
    } else {
        raw_label(b)
    }
}

/// compact encoding of a short byte string (length <= 2) or a 32-byte compact digest
#[inline(always)]
fn short_bytes(b: &[u8]) -> u64 {
    if b.len() == 32 {
        (0xd1u64 << 24) | name_of(b) as u64
    } else {
        if b.len() > 2 {
            exclude_path("byte string longer than 2");
        }
        let b0 = if b.len() > 0 { b[0] } else { 0 };
        let b1 = if b.len() > 1 { b[1] } else { 0 };
        ((b.len() as u64) << 16) | ((b0 as u64) << 8) | b1 as u64
    }
}

fn m_hash_bytes(item: &[u8]) -> Digest {
    dg(intern(Entry { tag: T_BYTES, x: short_bytes(item), ..NOENT }))
}

fn m_leaf_with_commitment(commitment: AzksValue, epoch: u64) -> AzksValueWithEpoch {
    AzksValueWithEpoch(dg(intern(Entry { tag: T_LEAFC, a: name_of(&commitment.0), x: epoch, ..NOENT })))
}

fn m_commit(value: &AkdValue, nonce: &[u8]) -> AzksValue {
    AzksValue(dg(intern(Entry { tag: T_COMMIT, x: (short_bytes(&value.0) << 32) | short_bytes(nonce), ..NOENT })))
}

fn m_parent(left_val: &AzksValue, left_label: &[u8], right_val: &AzksValue, right_label: &[u8]) -> AzksValue {
    let (la_len, la) = label_arg(left_label);
    let (lb_len, lb) = label_arg(right_label);
    AzksValue(dg(intern(Entry {
        tag: T_PARENT,
        a: name_of(&left_val.0),
        b: name_of(&right_val.0),
        la_len,
        la,
        lb_len,
        lb,
        x: 0,
    })))
}

// ------------------------------------------------------------------------------------------------
// Ideal VRF: the node label of (freshness, version) for the one AkdLabel under consideration.
// byte 0 is symbolic (set by the harness, so trie shapes stay symbolic), byte 1 encodes
// (freshness, version) injectively, the rest is zero. Other AkdLabels ("bystanders") use byte 1
// values >= 0xc0 and can never be produced by the VRF for this label.
pub const VMAX: usize = 8;
pub static mut VRF_LEAD: [[u8; VMAX]; 2] = [[0; VMAX]; 2];

pub fn vrf_label(fresh: bool, version: u64) -> NodeLabel {
    let mut v = [0u8; 32];
    let f = if fresh { 1usize } else { 0usize };
    v[0] = unsafe { VRF_LEAD[f][(version as usize) % VMAX] };
    v[1] = ((f as u8) << 5) | (version as u8 & 0x1f);
    NodeLabel::new(v, 256)
}

fn m_verify_label(
    freshness: VersionFreshness,
    version: u64,
    node_label: NodeLabel,
) -> Result<(), akd_core::verify::VerificationError> {
    // versions outside the modelled range have no valid VRF proof in the model
    if version as usize >= VMAX {
        return Err(akd_core::verify::VerificationError::LookupProof(String::new()));
    }
    let want = vrf_label(freshness == VersionFreshness::Fresh, version);
    if want.label_len == node_label.label_len && crate::util::bytes_eq(&want.label_val, &node_label.label_val) {
        Ok(())
    } else {
        Err(akd_core::verify::VerificationError::LookupProof(String::new()))
    }
}

macro_rules! common_methods {
    () => {
        fn hash(item: &[u8]) -> Digest {
            m_hash_bytes(item)
        }
        fn hash_leaf_with_value(value: &AkdValue, epoch: u64, nonce: &[u8]) -> AzksValueWithEpoch {
            m_leaf_with_commitment(m_commit(value, nonce), epoch)
        }
        fn hash_leaf_with_commitment(commitment: AzksValue, epoch: u64) -> AzksValueWithEpoch {
            m_leaf_with_commitment(commitment, epoch)
        }
        fn get_commitment_nonce(_k: &[u8], _label: &NodeLabel, _version: u64, _value: &AkdValue) -> Digest {
            unreachable!("server-side only")
        }
        fn compute_fresh_azks_value(_k: &[u8], _label: &NodeLabel, _version: u64, _value: &AkdValue) -> AzksValue {
            unreachable!("server-side only")
        }
        fn get_hash_from_label_input(_label: &AkdLabel, _f: VersionFreshness, _version: u64) -> Vec<u8> {
            unreachable!("VRF input is only used by the real VRF")
        }
        fn compute_parent_hash_from_children(
            left_val: &AzksValue,
            left_label: &[u8],
            right_val: &AzksValue,
            right_label: &[u8],
        ) -> AzksValue {
            m_parent(left_val, left_label, right_val, right_label)
        }
        #[cfg(facebook_akd_verif)]
        fn verif_verify_label(
            _vrf_public_key: &[u8],
            _akd_label: &AkdLabel,
            freshness: VersionFreshness,
            version: u64,
            _vrf_proof: &[u8],
            node_label: NodeLabel,
        ) -> Option<Result<(), akd_core::verify::VerificationError>> {
            Some(m_verify_label(freshness, version, node_label))
        }
    };
}

#[derive(Clone)]
pub struct ModelWA;
#[derive(Clone)]
pub struct ModelEXP;

/// fixed names for the WhatsApp-shaped constants (hash outputs of constants): they are interned
/// by `init_constants` before anything else so that they are ordinary table outputs.
pub static mut WA_EMPTY_HASH_OF_EMPTY_VALUE: u16 = 0;
pub static mut WA_EMPTY_NODE_HASH: u16 = 0;

/// Must be called by every harness after `reset()`.
pub fn init_constants() {
    unsafe {
        // H(EMPTY_VALUE)
        WA_EMPTY_HASH_OF_EMPTY_VALUE = intern(Entry { tag: T_BYTES, x: short_bytes(&akd_core::EMPTY_VALUE), ..NOENT });
        // H(H(EMPTY_VALUE) || value(empty label)) -- a distinct constant output
        WA_EMPTY_NODE_HASH = intern(Entry { tag: T_BYTES, x: 0xee00_0000_0000, ..NOENT });
    }
}

impl Configuration for ModelWA {
    common_methods!();
    fn empty_root_value() -> AzksValue {
        AzksValue(dg(unsafe { WA_EMPTY_HASH_OF_EMPTY_VALUE }))
    }
    fn empty_node_hash() -> AzksValue {
        AzksValue(dg(unsafe { WA_EMPTY_NODE_HASH }))
    }
    fn compute_root_hash_from_val(root_val: &AzksValue) -> Digest {
        dg(intern(Entry { tag: T_ROOT, a: name_of(&root_val.0), ..NOENT }))
    }
    fn stale_azks_value() -> AzksValue {
        AzksValue(dg(unsafe { WA_EMPTY_HASH_OF_EMPTY_VALUE }))
    }
    fn compute_node_label_value(bytes: &[u8]) -> Vec<u8> {
        // H(label bytes) as an injective *encoding* (tagged, 32 bytes) instead of a table entry:
        // its only consumers are the label arguments of the parent hash.
        let (len, top) = raw_label(bytes);
        let mut v = [0u8; 32];
        v[0] = 0xAB;
        v[1] = (len >> 24) as u8;
        v[2] = (len >> 16) as u8;
        v[3] = (len >> 8) as u8;
        v[4] = len as u8;
        v[5] = (top >> 56) as u8;
        v[6] = (top >> 48) as u8;
        v[7] = (top >> 40) as u8;
        v[8] = (top >> 32) as u8;
        v[9] = (top >> 24) as u8;
        v[10] = (top >> 16) as u8;
        v[11] = (top >> 8) as u8;
        v[12] = top as u8;
        v.to_vec()
    }
    fn empty_label() -> NodeLabel {
        NodeLabel { label_val: [1u8; 32], label_len: 0 }
    }
}

impl Configuration for ModelEXP {
    common_methods!();
    fn empty_root_value() -> AzksValue {
        AzksValue([0u8; 32])
    }
    fn empty_node_hash() -> AzksValue {
        AzksValue([0u8; 32])
    }
    fn compute_root_hash_from_val(root_val: &AzksValue) -> Digest {
        root_val.0
    }
    fn stale_azks_value() -> AzksValue {
        AzksValue([0u8; 32])
    }
    fn compute_node_label_value(bytes: &[u8]) -> Vec<u8> {
        bytes.to_vec()
    }
    fn empty_label() -> NodeLabel {
        let mut v = [0u8; 32];
        v[0] = 1;
        NodeLabel { label_val: v, label_len: 0 }
    }
}
