//! Shape-concrete reference trie: the *structure* of the tree (the bit position at which each pair
//! of neighbouring sorted keys first differs, hence every label length, split point and path) is
//! a concrete value enumerated by the harness, while key bits, leaf hashes, queried labels and
//! digests stay symbolic. With concrete label lengths the label loops of the code under test
//! have concrete bounds, which keeps CBMC's formula an order of magnitude smaller than with a
//! fully symbolic shape; the enumeration over all shapes restores the quantification.
use crate::model::{dg, name_of};
use crate::trie::{empty_elem, key_label, key_prefix, no_sib, sib_vec, D};
use akd_core::hash::Digest;
use akd_core::{AzksElement, AzksValue, Configuration, Direction, MembershipProof, NodeLabel, SiblingProof};
use core::marker::PhantomData;

/// shape number `c` in base `w`: hb[i] = position of the first differing bit of keys[i], keys[i+1]
pub fn shape_of<const L: usize>(c: usize, w: u32) -> [u32; L] {
    let mut hb = [0u32; L];
    let mut x = c;
    let mut i = 0;
    while i + 1 < L {
        hb[i] = (x % w as usize) as u32;
        x /= w as usize;
        i += 1;
    }
    hb
}

pub fn num_shapes<const L: usize>(w: u32) -> usize {
    let mut n = 1usize;
    let mut i = 0;
    while i + 1 < L {
        n *= w as usize;
        i += 1;
    }
    n
}

/// (min, argmin, unique) of hb[lo..hi)
fn min_of<const L: usize>(hb: &[u32; L], lo: usize, hi: usize) -> (u32, usize, bool) {
    let mut m = hb[lo];
    let mut k = lo;
    let mut unique = true;
    let mut j = lo + 1;
    while j < hi {
        if hb[j] < m {
            m = hb[j];
            k = j;
            unique = true;
        } else if hb[j] == m {
            unique = false;
        }
        j += 1;
    }
    (m, k, unique)
}

/// a shape is realisable by sorted distinct keys only if every interval has a unique minimum
pub fn feasible<const L: usize>(hb: &[u32; L]) -> bool {
    let mut lo = 0;
    while lo + 1 < L {
        let mut hi = lo + 1;
        while hi < L {
            if !min_of(hb, lo, hi).2 {
                return false;
            }
            hi += 1;
        }
        lo += 1;
    }
    true
}

pub struct STree<TC: Configuration, const L: usize> {
    pub keys: [u16; L],
    pub leaf_len: u32,
    pub hb: [u32; L],
    /// digest name of the node covering [lo, hi] as hashed into its parent
    pub hn: [[u16; L]; L],
    pub split_root: bool,
    /// single-child root: the child is the right child
    pub side_right: bool,
    pub root_name: u16,
    pub root_hash: Digest,
    _p: PhantomData<TC>,
}

/// concrete position in the tree
#[derive(Clone, Copy, PartialEq, Eq)]
pub enum Pos {
    Root,
    Iv(usize, usize),
}

impl<TC: Configuration, const L: usize> STree<TC, L> {
    /// label length of interval [lo, hi] (concrete)
    pub fn mlen(&self, lo: usize, hi: usize) -> u32 {
        if lo == hi {
            self.leaf_len
        } else {
            min_of(&self.hb, lo, hi).0
        }
    }
    pub fn split(&self, lo: usize, hi: usize) -> usize {
        min_of(&self.hb, lo, hi).1
    }
    pub fn label(&self, lo: usize, hi: usize) -> NodeLabel {
        let m = self.mlen(lo, hi);
        if lo == hi {
            key_label(self.keys[lo], m)
        } else {
            key_label(key_prefix(self.keys[lo], m), m)
        }
    }
    pub fn elem(&self, lo: usize, hi: usize) -> AzksElement {
        AzksElement { label: self.label(lo, hi), value: AzksValue(dg(self.hn[lo][hi])) }
    }

    /// Build the tree for the concrete shape `hb` and the concrete side; the symbolic keys are
    /// *assumed* to realise that shape. `vals[i]` = value of leaf i as hashed into its parent.
    pub fn build(keys: [u16; L], hb: [u32; L], leaf_len: u32, vals: [AzksValue; L], side_right: bool) -> Self {
        let mut i = 0;
        while i + 1 < L {
            #[cfg(kani)]
            kani::assume(keys[i] < keys[i + 1] && (keys[i] ^ keys[i + 1]).leading_zeros() == hb[i]);
            i += 1;
        }
        let top_m = if L == 1 { leaf_len } else { min_of(&hb, 0, L - 1).0 };
        let split_root = L >= 2 && top_m == 0;
        #[cfg(kani)]
        if !split_root {
            kani::assume(((keys[0] >> 15) == 1) == side_right);
        }
        let mut t = STree { keys, leaf_len, hb, hn: [[0u16; L]; L], split_root, side_right, root_name: 0, root_hash: [0u8; 32], _p: PhantomData };
        let mut i = 0;
        while i < L {
            t.hn[i][i] = name_of(&vals[i].0);
            i += 1;
        }
        let mut span = 1;
        while span < L {
            let mut lo = 0;
            while lo + span < L {
                let hi = lo + span;
                let k = t.split(lo, hi);
                let l = t.elem(lo, k);
                let r = t.elem(k + 1, hi);
                let v = TC::compute_parent_hash_from_children(&l.value, &l.label.value::<TC>(), &r.value, &r.label.value::<TC>());
                t.hn[lo][hi] = name_of(&v.0);
                lo += 1;
            }
            span += 1;
        }
        let root_val = if split_root {
            AzksValue(dg(t.hn[0][L - 1]))
        } else {
            let top = t.elem(0, L - 1);
            let e = empty_elem::<TC>();
            if side_right {
                TC::compute_parent_hash_from_children(&e.value, &e.label.value::<TC>(), &top.value, &top.label.value::<TC>())
            } else {
                TC::compute_parent_hash_from_children(&top.value, &top.label.value::<TC>(), &e.value, &e.label.value::<TC>())
            }
        };
        t.root_name = name_of(&root_val.0);
        t.root_hash = TC::compute_root_hash_from_val(&root_val);
        t
    }

    pub fn pos_label(&self, p: Pos) -> NodeLabel {
        match p {
            Pos::Root => NodeLabel::root(),
            Pos::Iv(lo, hi) => self.label(lo, hi),
        }
    }
    pub fn pos_val(&self, p: Pos) -> AzksValue {
        match p {
            Pos::Root => AzksValue(dg(self.root_name)),
            Pos::Iv(lo, hi) => AzksValue(dg(self.hn[lo][hi])),
        }
    }

    /// children of a position: [left, right] as (element, position); None = absent child
    pub fn children(&self, p: Pos) -> Option<[(AzksElement, Option<Pos>); 2]> {
        match p {
            Pos::Root if !self.split_root => {
                let top = (self.elem(0, L - 1), Some(Pos::Iv(0, L - 1)));
                let e = (empty_elem::<TC>(), None);
                Some(if self.side_right { [e, top] } else { [top, e] })
            }
            Pos::Root => {
                let k = self.split(0, L - 1);
                Some([(self.elem(0, k), Some(Pos::Iv(0, k))), (self.elem(k + 1, L - 1), Some(Pos::Iv(k + 1, L - 1)))])
            }
            Pos::Iv(lo, hi) if lo < hi => {
                let k = self.split(lo, hi);
                Some([(self.elem(lo, k), Some(Pos::Iv(lo, k))), (self.elem(k + 1, hi), Some(Pos::Iv(k + 1, hi)))])
            }
            _ => None,
        }
    }

    /// the real path from the root to `target` (concrete): sibling proofs collected on the way
    pub fn path_to(&self, target: Pos) -> ([SiblingProof; D], usize) {
        let mut sib = [no_sib(), no_sib(), no_sib(), no_sib(), no_sib()];
        let mut depth = 0;
        let mut cur = Pos::Root;
        let mut guard = 0;
        while cur != target && guard < L + 1 {
            let ch = self.children(cur).unwrap();
            // the child that contains the target interval
            let (tlo, thi) = match target {
                Pos::Iv(a, b) => (a, b),
                Pos::Root => (0, 0),
            };
            let goes_right = match ch[1].1 {
                Some(Pos::Iv(a, b)) => a <= tlo && thi <= b,
                _ => false,
            };
            let (c, o) = if goes_right { (1, 0) } else { (0, 1) };
            sib[depth] = SiblingProof {
                label: self.pos_label(cur),
                siblings: [ch[o].0],
                direction: if goes_right { Direction::Right } else { Direction::Left },
            };
            depth += 1;
            cur = ch[c].1.unwrap();
            guard += 1;
        }
        (sib, depth)
    }

    pub fn membership_proof(&self, target: Pos) -> MembershipProof {
        let (sib, depth) = self.path_to(target);
        MembershipProof { label: self.pos_label(target), hash_val: self.pos_val(target), sibling_proofs: sib_vec(&sib, depth) }
    }

    pub fn is_leaf_key(&self, key: u16) -> bool {
        let mut i = 0;
        let mut f = false;
        while i < L {
            if self.keys[i] == key {
                f = true;
            }
            i += 1;
        }
        f
    }

    /// internal positions (anchors): index 0 = root, then the reachable intervals with lo < hi
    /// in a fixed order; returns None past the end. (The top interval of a split root *is* the root.)
    pub fn anchor(&self, idx: usize) -> Option<Pos> {
        if idx == 0 {
            return Some(Pos::Root);
        }
        let mut n = 0;
        let mut stack = [(0usize, 0usize); 8];
        let mut sp = 0;
        if L >= 2 {
            stack[0] = (0, L - 1);
            sp = 1;
        }
        while sp > 0 {
            sp -= 1;
            let (lo, hi) = stack[sp];
            if lo < hi {
                let is_root_itself = self.split_root && lo == 0 && hi == L - 1;
                if !is_root_itself {
                    n += 1;
                    if n == idx {
                        return Some(Pos::Iv(lo, hi));
                    }
                }
                let k = self.split(lo, hi);
                stack[sp] = (lo, k);
                stack[sp + 1] = (k + 1, hi);
                sp += 2;
            }
        }
        None
    }
}
