//! C05 — tree membership / non-membership proofs are sound and complete.
//!
//! Code under test: akd_core::verify::base::{verify_membership, verify_nonmembership} (through
//! the `public_tests` entry points) and the NodeLabel operations they call, compiled against the
//! ideal-hash configurations ModelWA / ModelEXP. Oracle: set membership in the symbolic leaf set;
//! the tree is the reference trie of `crate::trie`.
#![cfg(kani)]
use crate::model::{self, dg, ModelEXP, ModelWA};
use crate::trie::*;
use akd_core::verify::{verify_membership_for_tests_only as vm, verify_nonmembership_for_tests_only as vnm};
use akd_core::{AzksElement, AzksValue, Configuration, Direction, MembershipProof, NodeLabel, NonMembershipProof, SiblingProof};

/// an arbitrary digest in compact form: any table output created so far, or a raw non-output
fn any_digest() -> AzksValue {
    let name: u16 = kani::any();
    kani::assume((name as usize) <= model::table_len() || name >= model::RAW0);
    AzksValue(dg(name))
}

/// L strictly increasing keys of `w` bits (left-aligned in 16 bits)
fn any_keys<const L: usize>(w: u32) -> [u16; L] {
    let mut keys = [0u16; L];
    let mut i = 0;
    while i < L {
        let k: u16 = kani::any();
        kani::assume(k & ((1u16 << (16 - w)) - 1) == 0);
        if i > 0 {
            kani::assume(keys[i - 1] < k);
        }
        keys[i] = k;
        i += 1;
    }
    keys
}

fn any_tree<TC: Configuration, const L: usize>(w: u32, leaf_len: u32) -> Tree<TC, L> {
    model::reset();
    model::init_constants();
    let keys = any_keys::<L>(w);
    let mut vals = [AzksValue([0u8; 32]); L];
    let mut i = 0;
    while i < L {
        // leaf hashes: arbitrary non-output values (a leaf hash is H(commitment, epoch) of data
        // that is not otherwise in the table; distinct or equal, as the solver likes)
        let name: u16 = kani::any();
        kani::assume(name >= model::RAW0);
        vals[i] = AzksValue(dg(name));
        i += 1;
    }
    Tree::<TC, L>::build(keys, leaf_len, vals)
}

/// an arbitrary label in compact form (two leading bytes symbolic) of the given maximal length
fn any_compact_label(max_len: u32) -> NodeLabel {
    let k: u16 = kani::any();
    let len: u32 = kani::any();
    kani::assume(len <= max_len);
    key_label(k, len)
}

/// walk of exactly `steps` (concrete) steps following the *concrete* direction pattern `pat`
/// (bit s = direction of step s); paths that leave the tree are excluded.
fn walk_pattern<TC: Configuration, const L: usize>(t: &Tree<TC, L>, steps: usize, pat: usize) -> Walk {
    let mut w = Walk::start(t);
    let mut s = 0;
    while s < steps {
        w.step(t, (pat >> s) & 1 == 1);
        s += 1;
    }
    kani::assume(w.valid);
    w
}

/// Case split over direction patterns: `body(pat)` runs once per concrete pattern, under the
/// guard that the symbolic choice equals it. Keeping `Direction` fields concrete inside each
/// case avoids merged heap pointers in the verifier (its two `match direction` arms allocate
/// different label-value vectors), which otherwise multiplies CBMC's formula size.
fn for_each_pattern(nbits: usize, mut body: impl FnMut(usize)) {
    let chosen: usize = kani::any();
    kani::assume(chosen < (1usize << nbits));
    let mut pat = 0usize;
    while pat < (1usize << nbits) {
        if chosen == pat {
            body(pat);
        }
        pat += 1;
    }
}

// ------------------------------------------------------------------------------------------------
// 1. NM-sound-real-nodes: the anchor is any real internal node (at depth `steps`) with its real
//    children and its real sibling path; the queried label is arbitrary.
//    Accepted => the label is not a leaf.
fn nm_sound_real<TC: Configuration, const L: usize>(w: u32, leaf_len: u32, steps: usize) {
    let t = any_tree::<TC, L>(w, leaf_len);
    let q: u16 = kani::any();
    kani::assume(q & ((1u16 << (16 - w)) - 1) == 0);
    let is_leaf = t.is_leaf_key(q);
    for_each_pattern(steps, |pat| {
        let walk = walk_pattern(&t, steps, pat);
        let children = match t.children(&walk.at) {
            Some((c, _)) => c,
            None => {
                kani::assume(false);
                [empty_elem::<TC>(), empty_elem::<TC>()]
            }
        };
        let proof = NonMembershipProof {
            label: key_label(q, leaf_len),
            longest_prefix: walk.at.label,
            longest_prefix_children: children,
            longest_prefix_membership_proof: walk.membership_proof(),
        };
        let r = vnm::<TC>(t.root_hash, &proof);
        let accepted = r.is_ok();
        core::mem::forget(r);
        core::mem::forget(proof);
        kani::cover!(accepted);
        kani::cover!(!accepted);
        if accepted {
            assert!(!is_leaf, "non-membership proof accepted for a label that is in the tree");
        }
    });
    assert!(unsafe { !model::OVERFLOW });
}

// 2. NM-sound-free: every field of the proof is symbolic.
fn nm_sound_free<TC: Configuration, const L: usize>(w: u32, leaf_len: u32, nsib: usize) {
    let t = any_tree::<TC, L>(w, leaf_len);
    let q: u16 = kani::any();
    kani::assume(q & ((1u16 << (16 - w)) - 1) == 0);
    let mut sib = [no_sib(), no_sib(), no_sib(), no_sib(), no_sib()];
    let mut i = 0;
    while i < nsib {
        sib[i] = SiblingProof {
            label: any_compact_label(leaf_len),
            siblings: [AzksElement { label: any_label_or_empty::<TC>(leaf_len), value: any_digest() }],
            direction: Direction::Left,
        };
        i += 1;
    }
    let is_leaf = t.is_leaf_key(q);
    for_each_pattern(nsib, |pat| {
    let mut i = 0;
    while i < nsib {
        sib[i].direction = if (pat >> i) & 1 == 1 { Direction::Right } else { Direction::Left };
        i += 1;
    }
    let proof = NonMembershipProof {
        label: key_label(q, leaf_len),
        longest_prefix: any_compact_label(leaf_len),
        longest_prefix_children: [
            AzksElement { label: any_label_or_empty::<TC>(leaf_len), value: any_digest() },
            AzksElement { label: any_label_or_empty::<TC>(leaf_len), value: any_digest() },
        ],
        longest_prefix_membership_proof: MembershipProof {
            label: any_compact_label(leaf_len),
            hash_val: any_digest(),
            sibling_proofs: sib_vec(&sib, nsib),
        },
    };
    let r = vnm::<TC>(t.root_hash, &proof);
    let accepted = r.is_ok();
    core::mem::forget(r);
    core::mem::forget(proof);
    kani::cover!(accepted);
    if accepted {
        assert!(!is_leaf, "non-membership proof accepted for a label that is in the tree");
    }
    });
    assert!(unsafe { !model::OVERFLOW });
}

fn any_label_or_empty<TC: Configuration>(max_len: u32) -> NodeLabel {
    if kani::any() {
        TC::empty_label()
    } else {
        any_compact_label(max_len)
    }
}

// 3. M-sound-free: fully symbolic membership proof; accepted => (label, hash) is a real node.
fn m_sound_free<TC: Configuration, const L: usize>(w: u32, leaf_len: u32, nsib: usize) {
    let t = any_tree::<TC, L>(w, leaf_len);
    let mut sib = [no_sib(), no_sib(), no_sib(), no_sib(), no_sib()];
    let mut i = 0;
    while i < nsib {
        sib[i] = SiblingProof {
            label: any_compact_label(leaf_len),
            siblings: [AzksElement { label: any_label_or_empty::<TC>(leaf_len), value: any_digest() }],
            direction: Direction::Left,
        };
        i += 1;
    }
    let plabel = any_compact_label(leaf_len);
    let pval = any_digest();
    let is_node = t.is_node(&plabel, &pval);
    for_each_pattern(nsib, |pat| {
        let mut i = 0;
        while i < nsib {
            sib[i].direction = if (pat >> i) & 1 == 1 { Direction::Right } else { Direction::Left };
            i += 1;
        }
        let proof = MembershipProof { label: plabel, hash_val: pval, sibling_proofs: sib_vec(&sib, nsib) };
        let r = vm::<TC>(t.root_hash, &proof);
        let accepted = r.is_ok();
        core::mem::forget(r);
        core::mem::forget(proof);
        kani::cover!(accepted);
        if accepted {
            assert!(is_node, "membership proof accepted for a (label, hash) that is not a node of the tree");
        }
    });
    assert!(unsafe { !model::OVERFLOW });
}

// 5. Completeness: the proofs of documented shape verify (one harness per path length).
fn complete_member<TC: Configuration, const L: usize>(w: u32, leaf_len: u32, steps: usize) {
    let t = any_tree::<TC, L>(w, leaf_len);
    let i: usize = kani::any();
    kani::assume(i < L);
    let key = t.keys[i];
    let leaf_name = t.hn[i][i];
    for_each_pattern(steps, |pat| {
        // honest prover: descend along the bits of the key; this case covers the leaves whose
        // path from the root is exactly the direction pattern `pat`
        let mut walk = Walk::start(&t);
        let mut s = 0;
        while s < steps {
            let bitpos = walk.at.label.label_len;
            kani::assume(bitpos < 16);
            let right = (key >> (15 - bitpos)) & 1 == 1;
            kani::assume(right == ((pat >> s) & 1 == 1));
            walk.step(&t, (pat >> s) & 1 == 1);
            s += 1;
        }
        kani::assume(walk.valid && !walk.at.is_root && walk.at.lo == i && walk.at.hi == i);
        let proof = walk.membership_proof();
        let r = vm::<TC>(t.root_hash, &proof);
        let ok = r.is_ok();
        core::mem::forget(r);
        kani::cover!(true);
        assert!(ok, "honest membership proof rejected");
        assert!(model::name_of(&proof.hash_val.0) == leaf_name);
        core::mem::forget(proof);
    });
}

fn complete_nonmember<TC: Configuration, const L: usize>(w: u32, leaf_len: u32, steps: usize) {
    let t = any_tree::<TC, L>(w, leaf_len);
    let q: u16 = kani::any();
    kani::assume(q & ((1u16 << (16 - w)) - 1) == 0);
    kani::assume(!t.is_leaf_key(q));
    // honest prover (akd/src/append_only_zks.rs get_lcp_node_label_with_membership_proof): descend
    // while the child in the label's direction exists and its label is a proper prefix of q.
    // This harness covers the labels whose anchor sits exactly `steps` levels below the root.
    for_each_pattern(steps, |pat| {
        let mut walk = Walk::start(&t);
        let mut s = 0;
        while s <= steps {
            let (elems, ivs) = match t.children(&walk.at) {
                Some(x) => x,
                None => {
                    kani::assume(false);
                    ([empty_elem::<TC>(), empty_elem::<TC>()], [(0, 0), (0, 0)])
                }
            };
            let bitpos = walk.at.label.label_len;
            kani::assume(bitpos < 16);
            let right = (q >> (15 - bitpos)) & 1 == 1;
            let c = if right { 1 } else { 0 };
            let cl = elems[c].label;
            let go_down = ivs[c].0 != usize::MAX && o_is_prefix(key_of(&cl), cl.label_len, q, leaf_len);
            if s < steps {
                kani::assume(go_down);
                kani::assume(right == ((pat >> s) & 1 == 1));
                walk.step(&t, (pat >> s) & 1 == 1);
            } else {
                kani::assume(!go_down);
            }
            s += 1;
        }
        let children = t.children(&walk.at).unwrap().0;
        let proof = NonMembershipProof {
            label: key_label(q, leaf_len),
            longest_prefix: walk.at.label,
            longest_prefix_children: children,
            longest_prefix_membership_proof: walk.membership_proof(),
        };
        let r = vnm::<TC>(t.root_hash, &proof);
        let ok = r.is_ok();
        core::mem::forget(r);
        core::mem::forget(proof);
        kani::cover!(true);
        assert!(ok, "honest non-membership proof rejected");
    });
}

// ================================================================================================
// Shape-enumerated family (crate::strie): structure concrete, data symbolic.
use crate::strie::{feasible, shape_of, Pos, STree};

pub const M_NM_REAL: u32 = 1;
pub const M_CN: u32 = 2;
pub const M_CM: u32 = 4;

fn shape_body<TC: Configuration, const L: usize>(w: u32, leaf_len: u32, c: usize, side_right: bool, mode: u32) {
    let hb = shape_of::<L>(c, w);
    if !feasible(&hb) {
        return;
    }
    model::reset();
    model::init_constants();
    let mut keys = [0u16; L];
    let mut vals = [AzksValue([0u8; 32]); L];
    let mut i = 0;
    while i < L {
        let k: u16 = kani::any();
        kani::assume(k & ((1u16 << (16 - w)) - 1) == 0);
        keys[i] = k;
        let name: u16 = kani::any();
        kani::assume(name >= model::RAW0);
        vals[i] = AzksValue(dg(name));
        i += 1;
    }
    let t = STree::<TC, L>::build(keys, hb, leaf_len, vals, side_right);
    let q: u16 = kani::any();
    kani::assume(q & ((1u16 << (16 - w)) - 1) == 0);
    let is_leaf = t.is_leaf_key(q);
    let qlabel = key_label(q, leaf_len);
    // reachability witnesses (vacuity guard), evaluated at the end
    let (mut saw_accept, mut saw_reject, mut saw_honest, mut saw_member) = (false, false, false, false);

    if mode & (M_NM_REAL | M_CN) != 0 {
        let mut idx = 0;
        while idx < L {
            if let Some(a) = t.anchor(idx) {
                let ch = t.children(a).unwrap();
                let alabel = t.pos_label(a);
                let proof = NonMembershipProof {
                    label: qlabel,
                    longest_prefix: alabel,
                    longest_prefix_children: [ch[0].0, ch[1].0],
                    longest_prefix_membership_proof: t.membership_proof(a),
                };
                let r = vnm::<TC>(t.root_hash, &proof);
                let accepted = r.is_ok();
                core::mem::forget(r);
                core::mem::forget(proof);
                if mode & M_NM_REAL != 0 {
                    // 1. soundness: any real anchor, any label
                    saw_accept |= accepted;
                    saw_reject |= !accepted;
                    if accepted {
                        assert!(!is_leaf, "non-membership proof accepted for a label that is in the tree");
                    }
                }
                if mode & M_CN != 0 {
                    // 5. completeness: if `a` is the deepest node matching q (the honest prover's
                    // anchor) and q is not a leaf, the proof verifies
                    let alen = alabel.label_len;
                    let a_matches = o_is_prefix(key_of(&alabel), alen, q, leaf_len);
                    let right = alen < 16 && (q >> (15 - alen)) & 1 == 1;
                    let child = if right { ch[1] } else { ch[0] };
                    let child_matches = child.1.is_some() && o_is_prefix(key_of(&child.0.label), child.0.label.label_len, q, leaf_len);
                    if !is_leaf && a_matches && !child_matches {
                        saw_honest = true;
                        assert!(accepted, "honest non-membership proof rejected");
                    }
                }
            }
            idx += 1;
        }
    }
    if mode & M_CM != 0 {
        let mut i = 0;
        while i < L {
            let proof = t.membership_proof(Pos::Iv(i, i));
            let r = vm::<TC>(t.root_hash, &proof);
            let ok = r.is_ok();
            core::mem::forget(r);
            saw_member |= ok;
            assert!(ok, "honest membership proof rejected");
            assert!(model::name_of(&proof.hash_val.0) == t.hn[i][i]);
            core::mem::forget(proof);
            i += 1;
        }
    }
    assert!(unsafe { !model::OVERFLOW });
    kani::cover!(mode & M_NM_REAL == 0 || saw_accept);
    kani::cover!(mode & M_NM_REAL == 0 || saw_reject);
    kani::cover!(mode & M_CN == 0 || saw_honest);
    kani::cover!(mode & M_CM == 0 || saw_member);
}

macro_rules! shape1 {
    ($name:ident, $tc:ty, $l:expr, $w:expr, $leaf:expr, $mode:expr, $unw:expr, $c:expr, $side:expr) => {
        #[kani::proof]
        #[kani::unwind($unw)]
        #[kani::stub(alloc::fmt::format, crate::util::format_stub)]
        fn $name() {
            shape_body::<$tc, $l>($w, $leaf, $c, $side, $mode);
        }
    };
}
include!("c05_shapes.rs");

macro_rules! h {
    ($name:ident, $f:ident, $tc:ty, $l:expr, $w:expr, $leaf:expr, $unw:expr, $n:expr) => {
        #[kani::proof]
        #[kani::unwind($unw)]
        #[kani::stub(alloc::fmt::format, crate::util::format_stub)]
        fn $name() {
            $f::<$tc, $l>($w, $leaf, $n);
        }
    };
}

// w-bit universe (labels are exactly w bits long). unwind 9 covers every loop of the code under
// test and of the oracle for w <= 6 and L <= 4 (label loops <= w + 1, tree loops <= L + 1,
// concat <= 5); memcmp (32-byte comparisons) gets its own bound 34 through --unwindset.
h!(c05_nm_real_wa_l2_w4_d0, nm_sound_real, ModelWA, 2, 4, 4, 9, 0);
h!(c05_nm_real_wa_l2_w4_d1, nm_sound_real, ModelWA, 2, 4, 4, 9, 1);
h!(c05_nm_real_wa_l3_w4_d0, nm_sound_real, ModelWA, 3, 4, 4, 9, 0);
h!(c05_nm_real_wa_l3_w4_d1, nm_sound_real, ModelWA, 3, 4, 4, 9, 1);
h!(c05_nm_real_wa_l3_w4_d2, nm_sound_real, ModelWA, 3, 4, 4, 9, 2);
h!(c05_nm_real_exp_l3_w4_d0, nm_sound_real, ModelEXP, 3, 4, 4, 9, 0);
h!(c05_nm_real_exp_l3_w4_d1, nm_sound_real, ModelEXP, 3, 4, 4, 9, 1);
h!(c05_nm_real_exp_l3_w4_d2, nm_sound_real, ModelEXP, 3, 4, 4, 9, 2);
h!(c05_nm_real_wa_l1_w4_d0, nm_sound_real, ModelWA, 1, 4, 4, 9, 0);
h!(c05_nm_real_exp_l1_w4_d0, nm_sound_real, ModelEXP, 1, 4, 4, 9, 0);
h!(c05_nm_real_wa_l4_w6_d0, nm_sound_real, ModelWA, 4, 6, 6, 9, 0);
h!(c05_nm_real_wa_l4_w6_d1, nm_sound_real, ModelWA, 4, 6, 6, 9, 1);
h!(c05_nm_real_wa_l4_w6_d2, nm_sound_real, ModelWA, 4, 6, 6, 9, 2);
h!(c05_nm_real_wa_l4_w6_d3, nm_sound_real, ModelWA, 4, 6, 6, 9, 3);
h!(c05_nm_real_exp_l4_w6_d1, nm_sound_real, ModelEXP, 4, 6, 6, 9, 1);
h!(c05_nm_real_exp_l4_w6_d2, nm_sound_real, ModelEXP, 4, 6, 6, 9, 2);
// 256-bit leaf labels whose leading byte (8 significant bits) is symbolic
h!(c05_nm_real_wa_l3_w8_256_d1, nm_sound_real, ModelWA, 3, 8, 256, 11, 1);
h!(c05_nm_real_exp_l3_w8_256_d0, nm_sound_real, ModelEXP, 3, 8, 256, 11, 0);

h!(c05_nm_free_wa_l2_w4_s0, nm_sound_free, ModelWA, 2, 4, 4, 9, 0);
h!(c05_nm_free_wa_l2_w4_s1, nm_sound_free, ModelWA, 2, 4, 4, 9, 1);
h!(c05_nm_free_exp_l2_w4_s0, nm_sound_free, ModelEXP, 2, 4, 4, 9, 0);
h!(c05_nm_free_exp_l2_w4_s1, nm_sound_free, ModelEXP, 2, 4, 4, 9, 1);
h!(c05_nm_free_wa_l3_w4_s0, nm_sound_free, ModelWA, 3, 4, 4, 9, 0);
h!(c05_nm_free_wa_l3_w4_s1, nm_sound_free, ModelWA, 3, 4, 4, 9, 1);
h!(c05_nm_free_wa_l3_w4_s2, nm_sound_free, ModelWA, 3, 4, 4, 9, 2);
h!(c05_nm_free_exp_l3_w4_s1, nm_sound_free, ModelEXP, 3, 4, 4, 9, 1);
h!(c05_nm_free_exp_l3_w4_s2, nm_sound_free, ModelEXP, 3, 4, 4, 9, 2);

h!(c05_m_free_wa_l2_w4_s0, m_sound_free, ModelWA, 2, 4, 4, 9, 0);
h!(c05_m_free_wa_l2_w4_s1, m_sound_free, ModelWA, 2, 4, 4, 9, 1);
h!(c05_m_free_exp_l2_w4_s0, m_sound_free, ModelEXP, 2, 4, 4, 9, 0);
h!(c05_m_free_exp_l2_w4_s1, m_sound_free, ModelEXP, 2, 4, 4, 9, 1);
h!(c05_m_free_wa_l3_w4_s1, m_sound_free, ModelWA, 3, 4, 4, 9, 1);
h!(c05_m_free_wa_l3_w4_s2, m_sound_free, ModelWA, 3, 4, 4, 9, 2);
h!(c05_m_free_wa_l3_w4_s3, m_sound_free, ModelWA, 3, 4, 4, 9, 3);
h!(c05_m_free_exp_l3_w4_s2, m_sound_free, ModelEXP, 3, 4, 4, 9, 2);
h!(c05_m_free_exp_l3_w4_s3, m_sound_free, ModelEXP, 3, 4, 4, 9, 3);

h!(c05_cm_wa_l3_w4_d1, complete_member, ModelWA, 3, 4, 4, 9, 1);
h!(c05_cm_wa_l3_w4_d2, complete_member, ModelWA, 3, 4, 4, 9, 2);
h!(c05_cm_wa_l3_w4_d3, complete_member, ModelWA, 3, 4, 4, 9, 3);
h!(c05_cm_exp_l3_w4_d1, complete_member, ModelEXP, 3, 4, 4, 9, 1);
h!(c05_cm_exp_l3_w4_d2, complete_member, ModelEXP, 3, 4, 4, 9, 2);
h!(c05_cm_exp_l3_w4_d3, complete_member, ModelEXP, 3, 4, 4, 9, 3);
h!(c05_cm_wa_l1_w4_d1, complete_member, ModelWA, 1, 4, 4, 9, 1);
h!(c05_cn_wa_l3_w4_d0, complete_nonmember, ModelWA, 3, 4, 4, 9, 0);
h!(c05_cn_wa_l3_w4_d1, complete_nonmember, ModelWA, 3, 4, 4, 9, 1);
h!(c05_cn_wa_l3_w4_d2, complete_nonmember, ModelWA, 3, 4, 4, 9, 2);
h!(c05_cn_exp_l3_w4_d0, complete_nonmember, ModelEXP, 3, 4, 4, 9, 0);
h!(c05_cn_exp_l3_w4_d1, complete_nonmember, ModelEXP, 3, 4, 4, 9, 1);
h!(c05_cn_exp_l3_w4_d2, complete_nonmember, ModelEXP, 3, 4, 4, 9, 2);
h!(c05_cn_wa_l1_w4_d0, complete_nonmember, ModelWA, 1, 4, 4, 9, 0);
h!(c05_cn_exp_l1_w4_d0, complete_nonmember, ModelEXP, 1, 4, 4, 9, 0);

include!("playback_c05.rs");
