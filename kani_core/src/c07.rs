//! C07 — a verifying history proof cannot hide, reorder, invent or misdate versions.
//!
//! Code under test: akd_core::verify::history::{key_history_verify, verify_with_history_params,
//! verify_single_update_proof} and the base.rs helpers (verify_existence*, verify_nonexistence,
//! verify_label with the ideal VRF hook). Tree-level verifiers: membership oracle of `dirmodel`
//! (compositional on C05). `get_marker_versions` (which CBMC cannot execute, see DESIGN) is
//! stubbed by a table generated from the REAL function on every run (tools/gen_marker_table.py,
//! exhaustive for 1 <= s <= n <= E <= 7; C08 decides the function itself symbolically).
#![cfg(kani)]
use crate::marker_table::{FUT, PAST};

/// Stub for akd_core::utils::get_marker_versions (table of the real function's outputs).
pub fn marker_table_stub(start_version: u64, end_version: u64, epoch: u64) -> (Vec<u64>, Vec<u64>) {
    // the verifier only calls it with 1 <= start <= end <= epoch; epochs are bounded by the harness
    kani::assume(start_version >= 1 && start_version <= end_version && end_version <= epoch && epoch <= crate::marker_table::EMAX);
    let (pl, p) = PAST[start_version as usize];
    let (fl, f) = FUT[end_version as usize][epoch as usize];
    // empty results are returned with an allocation behind them: Kani cannot reason about the
    // pointer arithmetic of `slice::Iter` over the dangling pointer of a never-allocated Vec
    // (`same_allocation` is unsupported there and silently cuts the path)
    let past = match pl {
        0 => Vec::with_capacity(1),
        1 => vec![p[0]],
        2 => vec![p[0], p[1]],
        _ => vec![p[0], p[1], p[2]],
    };
    let fut = match fl {
        0 => Vec::with_capacity(1),
        1 => vec![f[0]],
        2 => vec![f[0], f[1]],
        3 => vec![f[0], f[1], f[2]],
        _ => vec![f[0], f[1], f[2], f[3]],
    };
    (past, fut)
}

