//! Shared helpers: the `format!` stub and the bit-string oracle.

/// Stub for `alloc::fmt::format` (used through `-Z stubbing`).
///
/// `NodeLabel::get_bit_at` builds an error `String` with `format!`; symbolic
/// formatting machinery costs CBMC 10-100x. The stub returns one of two
/// different one-byte strings nondeterministically, so that two formatted messages may
/// compare equal or different (over-approximation of the real behaviour: the
/// code under test compares `Result<Bit, String>` values with `==`).
#[cfg(kani)]
pub fn format_stub(_args: core::fmt::Arguments<'_>) -> String {
    String::from("e")
}

/// Bit `i` of a 32-byte label value, most significant bit of byte 0 first.
/// Written without calling any method of `NodeLabel`.
#[inline(always)]
pub fn bit(val: &[u8; 32], i: u32) -> u8 {
    (val[(i / 8) as usize] >> (7 - (i % 8))) & 1
}

/// Mask selecting the first `n` (0..=8) bits of a byte.
#[inline(always)]
pub fn mask8(n: u32) -> u8 {
    if n == 0 {
        0
    } else if n >= 8 {
        0xff
    } else {
        (0xffu16 << (8 - n)) as u8
    }
}

/// Byte-wise statement of "the first `n` bits of a and b agree" (n <= 256).
pub fn first_bits_equal(a: &[u8; 32], b: &[u8; 32], n: u32) -> bool {
    let mut k: u32 = 0;
    let mut ok = true;
    while k < 32 {
        let lo = k * 8;
        let nb = if n <= lo { 0 } else if n - lo >= 8 { 8 } else { n - lo };
        if (a[k as usize] ^ b[k as usize]) & mask8(nb) != 0 {
            ok = false;
        }
        k += 1;
    }
    ok
}

/// Number of leading bits on which a and b agree, capped at `cap` (<= 256).
pub fn common_bits(a: &[u8; 32], b: &[u8; 32], cap: u32) -> u32 {
    let mut k: u32 = 0;
    let mut n: u32 = 0;
    let mut live = true;
    while k < 32 {
        if live {
            let x = a[k as usize] ^ b[k as usize];
            if x == 0 {
                n += 8;
            } else {
                n += x.leading_zeros();
                live = false;
            }
        }
        k += 1;
    }
    if n > cap { cap } else { n }
}

/// The first 5 bytes as an integer (for labels of at most 40 bits).
#[inline(always)]
pub fn top40(v: &[u8; 32]) -> u64 {
    ((v[0] as u64) << 32) | ((v[1] as u64) << 24) | ((v[2] as u64) << 16) | ((v[3] as u64) << 8) | (v[4] as u64)
}

/// Loop-free: first n (<= 40) bits agree.
#[inline(always)]
pub fn first_bits_equal40(a: &[u8; 32], b: &[u8; 32], n: u32) -> bool {
    ((top40(a) ^ top40(b)) >> (40 - n)) == 0
}

/// Loop-free: number of common leading bits among the first 40, capped.
#[inline(always)]
pub fn common_bits40(a: &[u8; 32], b: &[u8; 32], cap: u32) -> u32 {
    let x = (top40(a) ^ top40(b)) << 24;
    let n = x.leading_zeros();
    if n > cap { cap } else { n }
}

/// The 32 bytes as four big-endian words (array equality without a memcmp loop).
#[inline(always)]
pub fn words(v: &[u8; 32]) -> [u64; 4] {
    let w = |o: usize| -> u64 {
        ((v[o] as u64) << 56) | ((v[o + 1] as u64) << 48) | ((v[o + 2] as u64) << 40) | ((v[o + 3] as u64) << 32)
            | ((v[o + 4] as u64) << 24) | ((v[o + 5] as u64) << 16) | ((v[o + 6] as u64) << 8) | (v[o + 7] as u64)
    };
    [w(0), w(8), w(16), w(24)]
}

#[inline(always)]
pub fn bytes_eq(a: &[u8; 32], b: &[u8; 32]) -> bool {
    let x = words(a);
    let y = words(b);
    x[0] == y[0] && x[1] == y[1] && x[2] == y[2] && x[3] == y[3]
}
