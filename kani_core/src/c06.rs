//! C06 — a verifying lookup proof can only report the label's latest version.
//!
//! Code under test: akd_core::verify::lookup::lookup_verify and the base.rs helpers it calls
//! (verify_existence_with_val, verify_existence, verify_nonexistence, verify_label with the ideal
//! VRF hook), get_marker_version_log2; instantiated at ModelWA / ModelEXP. The tree-level
//! verifiers are replaced by the membership oracle of `dirmodel` (compositional on C05).
#![cfg(kani)]
use crate::dirmodel::{self, membership_proof, nonmembership_proof, root_hash, value_of, NMAX};
use crate::model::{self, dg, vrf_label, ModelEXP, ModelWA};
use akd_core::verify::lookup_verify;
use akd_core::{AkdLabel, AkdValue, AzksValue, Configuration, LookupProof, NodeLabel};

pub const EMAX: u64 = 7;

/// symbolic honest state: n versions (1..=nmax), one-byte values and nonces, increasing epochs
pub fn any_honest<TC: Configuration>(nmax: u64, pmode: u8) -> (u64, [u8; NMAX], [u64; NMAX], u64) {
    any_honest_at::<TC>(nmax, pmode, None)
}

/// same, with the current epoch fixed to a concrete value if given
pub fn any_honest_at<TC: Configuration>(nmax: u64, pmode: u8, epoch: Option<u64>) -> (u64, [u8; NMAX], [u64; NMAX], u64) {
    model::reset();
    model::init_constants();
    // leading bytes of the VRF node labels: symbolic (trie shapes stay symbolic for the replay)
    unsafe {
        let mut f = 0;
        while f < 2 {
            let mut v = 0;
            while v < model::VMAX {
                model::VRF_LEAD[f][v] = kani::any();
                v += 1;
            }
            f += 1;
        }
    }
    let n: u64 = kani::any();
    kani::assume(n >= 1 && n <= nmax);
    let val: [u8; NMAX] = kani::any();
    let nonce: [u8; NMAX] = kani::any();
    let ep: [u64; NMAX] = kani::any();
    let e: u64 = match epoch {
        Some(x) => x,
        None => kani::any(),
    };
    kani::assume(e <= EMAX);
    kani::assume(ep[0] >= 1);
    let mut v = 0;
    while v < NMAX {
        if (v as u64) < n {
            kani::assume(ep[v] <= e);
            if v > 0 {
                kani::assume(ep[v - 1] < ep[v]);
            }
        }
        v += 1;
    }
    let (pv, pep) = if pmode != 0 {
        let pv: u64 = kani::any();
        let pep: u64 = kani::any();
        kani::assume(pv >= 1 && pv < n && pep <= EMAX && pep != ep[pv as usize]);
        (pv, pep)
    } else {
        (0, 0)
    };
    dirmodel::install::<TC>(n, val, nonce, ep, pmode, pv, pep);
    (n, val, ep, e)
}

/// any digest: a table output created so far or a raw non-output
pub fn any_digest() -> AzksValue {
    let name: u16 = kani::any();
    kani::assume((name as usize) <= model::table_len() || name >= model::RAW0);
    AzksValue(dg(name))
}

/// a node label the adversary can present: the VRF label of any (freshness, version) of this
/// AkdLabel (it holds the key), or any other 256-bit label (another label's leaf, a made-up one)
pub fn any_node_label() -> NodeLabel {
    if kani::any() {
        let v: u64 = kani::any();
        kani::assume((v as usize) < model::VMAX);
        vrf_label(kani::any(), v)
    } else {
        let k: u16 = kani::any();
        crate::trie::key_label(k, 256)
    }
}

/// adversarial byte string of length 0..=2 (length chosen by the caller, concrete)
pub fn bytes_of_len(len: usize) -> Vec<u8> {
    match len {
        0 => Vec::new(),
        1 => vec![kani::any()],
        _ => vec![kani::any(), kani::any()],
    }
}

fn lookup_sound<TC: Configuration>(nmax: u64, vlen: usize, nlen: usize) {
    let (n, val, ep, e) = any_honest::<TC>(nmax, 0);
    let proof = LookupProof {
        epoch: kani::any(),
        value: AkdValue(bytes_of_len(vlen)),
        version: kani::any(),
        existence_vrf_proof: Vec::new(),
        existence_proof: membership_proof::<TC>(any_node_label(), crate::c07l2::any_leaf_hash()),
        marker_vrf_proof: Vec::new(),
        marker_proof: membership_proof::<TC>(any_node_label(), crate::c07l2::any_leaf_hash()),
        freshness_vrf_proof: Vec::new(),
        freshness_proof: nonmembership_proof::<TC>(any_node_label()),
        commitment_nonce: bytes_of_len(nlen),
    };
    let r = lookup_verify::<TC>(&[], root_hash::<TC>(), e, AkdLabel(Vec::new()), proof);
    match &r {
        Ok(res) => {
            assert!(res.version == n, "lookup accepted for a version that is not the latest");
            assert!(res.epoch == ep[(n - 1) as usize], "lookup accepted with a wrong epoch");
            assert!(res.value.0.len() == 1 && res.value.0[0] == val[(n - 1) as usize], "lookup accepted with a wrong value");
        }
        Err(_) => {}
    }
    // only a one-byte value with a one-byte nonce can be the honest one
    kani::cover!(r.is_ok() || vlen != 1 || nlen != 1);
    kani::cover!((r.is_ok() && n >= 2) || vlen != 1 || nlen != 1);
    kani::cover!(r.is_err());
    core::mem::forget(r);
    assert!(unsafe { !model::OVERFLOW });
}

fn lookup_complete<TC: Configuration>(nmax: u64) {
    let (n, val, ep, e) = any_honest::<TC>(nmax, 0);
    let h = unsafe { dirmodel::H };
    let i = (n - 1) as usize;
    // marker version = largest power of two <= n (server side: directory::get_marker_version, see C08.M5)
    let mv: u64 = if n >= 2 { 2 } else { 1 };
    let proof = LookupProof {
        epoch: ep[i],
        value: value_of(val[i]),
        version: n,
        existence_vrf_proof: Vec::new(),
        existence_proof: membership_proof::<TC>(vrf_label(true, n), AzksValue(dg(h.fresh_hash[i]))),
        marker_vrf_proof: Vec::new(),
        marker_proof: membership_proof::<TC>(vrf_label(true, mv), AzksValue(dg(h.fresh_hash[(mv - 1) as usize]))),
        freshness_vrf_proof: Vec::new(),
        freshness_proof: nonmembership_proof::<TC>(vrf_label(false, n)),
        commitment_nonce: vec![h.nonce[i]],
    };
    let r = lookup_verify::<TC>(&[], root_hash::<TC>(), e, AkdLabel(Vec::new()), proof);
    let ok = match &r {
        Ok(res) => res.version == n && res.epoch == ep[i] && res.value.0.len() == 1 && res.value.0[0] == val[i],
        Err(_) => false,
    };
    assert!(ok, "honest lookup proof rejected or misreported");
    kani::cover!(n == 3);
    core::mem::forget(r);
}

macro_rules! c06 {
    ($name:ident, $f:ident, $tc:ty $(, $a:expr)*) => {
        #[kani::proof]
        #[kani::unwind(9)]
        #[kani::stub(alloc::fmt::format, crate::util::format_stub)]
        #[kani::stub(akd_core::verify::base::verify_membership, crate::dirmodel::vm_oracle)]
        #[kani::stub(akd_core::verify::base::verify_nonmembership, crate::dirmodel::vnm_oracle)]
        fn $name() {
            $f::<$tc>($($a),*);
        }
    };
}
c06!(c06_sound_wa_n3_v1_c1, lookup_sound, ModelWA, 3, 1, 1);
c06!(c06_sound_wa_n3_v0_c1, lookup_sound, ModelWA, 3, 0, 1);
c06!(c06_sound_wa_n3_v2_c1, lookup_sound, ModelWA, 3, 2, 1);
c06!(c06_sound_wa_n3_v1_c0, lookup_sound, ModelWA, 3, 1, 0);
c06!(c06_sound_wa_n3_v1_c2, lookup_sound, ModelWA, 3, 1, 2);
c06!(c06_sound_exp_n3_v1_c1, lookup_sound, ModelEXP, 3, 1, 1);
c06!(c06_sound_exp_n3_v0_c1, lookup_sound, ModelEXP, 3, 0, 1);
c06!(c06_sound_exp_n3_v1_c2, lookup_sound, ModelEXP, 3, 1, 2);
c06!(c06_complete_wa_n3, lookup_complete, ModelWA, 3);
c06!(c06_complete_exp_n3, lookup_complete, ModelEXP, 3);

include!("playback_c06.rs");
