//! Reference oracle: the canonical compressed binary trie over a sorted set of L distinct keys,
//! with node hashes computed through the `Configuration` under test (ideal hash).
//!
//! Keys are 16-bit integers occupying bytes 0..2 of the 32-byte label value; all other bytes are
//! zero. Leaf labels have length `leaf_len` (>= number of significant key bits); the label of the
//! node covering the sorted interval [lo, hi] is the common prefix of keys[lo] and keys[hi].
//! This is the tree "published" in akd_core/src/lib.rs (Inserting into the Merkle Tree); it is an
//! oracle, not the code under test.
use akd_core::hash::Digest;
use crate::model::{dg, name_of};
use akd_core::{AzksElement, AzksValue, Configuration, Direction, MembershipProof, NodeLabel, SiblingProof};
use core::marker::PhantomData;

pub const D: usize = 5; // maximal number of sibling proofs handled by the helpers

#[inline(always)]
pub fn key_label(key: u16, len: u32) -> NodeLabel {
    let mut v = [0u8; 32];
    v[0] = (key >> 8) as u8;
    v[1] = key as u8;
    NodeLabel::new(v, len)
}

#[inline(always)]
pub fn key_of(l: &NodeLabel) -> u16 {
    ((l.label_val[0] as u16) << 8) | l.label_val[1] as u16
}

/// first m (<= 16) bits of key, rest zero
#[inline(always)]
pub fn key_prefix(key: u16, m: u32) -> u16 {
    if m == 0 {
        0
    } else if m >= 16 {
        key
    } else {
        key & (0xffffu16 << (16 - m))
    }
}

/// oracle: is label (pk, plen) a bit-prefix of the 16-bit-keyed label (k, klen)?  (plen <= 16 or
/// pk has no bits beyond 16)
#[inline(always)]
pub fn o_is_prefix(pk: u16, plen: u32, k: u16, klen: u32) -> bool {
    if plen > klen {
        return false;
    }
    if plen >= 16 {
        // all remaining bits are zero in both
        pk == k
    } else {
        key_prefix(k, plen) == key_prefix(pk, plen)
    }
}

#[derive(Clone, Copy)]
pub struct Node {
    pub lo: usize,
    pub hi: usize,
    pub is_root: bool,
    pub label: NodeLabel,
    pub val: AzksValue,
}

pub struct Tree<TC: Configuration, const L: usize> {
    pub keys: [u16; L],
    pub leaf_len: u32,
    /// digest name of the node covering [lo, hi] (as hashed into its parent)
    pub hn: [[u16; L]; L],
    /// label of that node: 16-bit key prefix and length
    pub lk: [[u16; L]; L],
    pub ll: [[u32; L]; L],
    pub split: [[usize; L]; L],
    pub reach: [[bool; L]; L],
    /// length of the common prefix of all keys (leaf_len if L == 1)
    pub top_m: u32,
    /// the root's children are the two halves of the top interval (true) or the root has a single
    /// child, the top interval node (false)
    pub split_root: bool,
    pub root_name: u16,
    pub root_hash: Digest,
    _p: PhantomData<TC>,
}

pub fn empty_elem<TC: Configuration>() -> AzksElement {
    AzksElement { label: TC::empty_label(), value: TC::empty_node_hash() }
}

impl<TC: Configuration, const L: usize> Tree<TC, L> {
    /// keys must be strictly increasing; `vals[i]` is the value of leaf i as hashed into its parent
    pub fn build(keys: [u16; L], leaf_len: u32, vals: [AzksValue; L]) -> Self {
        let mut hn = [[0u16; L]; L];
        let mut lk = [[0u16; L]; L];
        let mut ll = [[0u32; L]; L];
        let mut split = [[0usize; L]; L];
        let mut reach = [[false; L]; L];
        let mut i = 0;
        while i < L {
            hn[i][i] = name_of(&vals[i].0);
            lk[i][i] = keys[i];
            ll[i][i] = leaf_len;
            i += 1;
        }
        let mut span = 1;
        while span < L {
            let mut lo = 0;
            while lo + span < L {
                let hi = lo + span;
                let m = (keys[lo] ^ keys[hi]).leading_zeros();
                // the unique adjacent pair inside [lo, hi] that differs at bit m
                let mut k = lo;
                let mut j = lo;
                while j < hi {
                    if (keys[j] ^ keys[j + 1]).leading_zeros() == m {
                        k = j;
                    }
                    j += 1;
                }
                split[lo][hi] = k;
                lk[lo][hi] = key_prefix(keys[lo], m);
                ll[lo][hi] = m;
                let v = TC::compute_parent_hash_from_children(
                    &AzksValue(dg(hn[lo][k])),
                    &key_label(lk[lo][k], ll[lo][k]).value::<TC>(),
                    &AzksValue(dg(hn[k + 1][hi])),
                    &key_label(lk[k + 1][hi], ll[k + 1][hi]).value::<TC>(),
                );
                hn[lo][hi] = name_of(&v.0);
                lo += 1;
            }
            span += 1;
        }
        // reachable intervals (the real nodes)
        reach[0][L - 1] = true;
        let mut span = L - 1;
        while span >= 1 {
            let mut lo = 0;
            while lo + span < L {
                let hi = lo + span;
                if reach[lo][hi] {
                    let k = split[lo][hi];
                    reach[lo][k] = true;
                    reach[k + 1][hi] = true;
                }
                lo += 1;
            }
            span -= 1;
        }
        let top_m = if L == 1 { leaf_len } else { (keys[0] ^ keys[L - 1]).leading_zeros() };
        let split_root = L >= 2 && top_m == 0;
        let root_val = if split_root {
            AzksValue(dg(hn[0][L - 1]))
        } else {
            let top = AzksElement { label: key_label(lk[0][L - 1], ll[0][L - 1]), value: AzksValue(dg(hn[0][L - 1])) };
            let e = empty_elem::<TC>();
            if keys[0] & 0x8000 == 0 {
                TC::compute_parent_hash_from_children(&top.value, &top.label.value::<TC>(), &e.value, &e.label.value::<TC>())
            } else {
                TC::compute_parent_hash_from_children(&e.value, &e.label.value::<TC>(), &top.value, &top.label.value::<TC>())
            }
        };
        let root_hash = TC::compute_root_hash_from_val(&root_val);
        Tree { keys, leaf_len, hn, lk, ll, split, reach, top_m, split_root, root_name: name_of(&root_val.0), root_hash, _p: PhantomData }
    }

    pub fn root(&self) -> Node {
        Node { lo: 0, hi: L - 1, is_root: true, label: NodeLabel::root(), val: AzksValue(dg(self.root_name)) }
    }

    pub fn node(&self, lo: usize, hi: usize) -> Node {
        Node { lo, hi, is_root: false, label: key_label(self.lk[lo][hi], self.ll[lo][hi]), val: AzksValue(dg(self.hn[lo][hi])) }
    }

    pub fn elem(&self, lo: usize, hi: usize) -> AzksElement {
        AzksElement { label: key_label(self.lk[lo][hi], self.ll[lo][hi]), value: AzksValue(dg(self.hn[lo][hi])) }
    }

    /// children of a node as (left element, right element, left interval, right interval);
    /// an absent child (root with one child) is the empty element with interval (usize::MAX, _)
    pub fn children(&self, n: &Node) -> Option<([AzksElement; 2], [(usize, usize); 2])> {
        if n.is_root && !self.split_root {
            let top = self.elem(0, L - 1);
            let e = empty_elem::<TC>();
            if self.keys[0] & 0x8000 == 0 {
                Some(([top, e], [(0, L - 1), (usize::MAX, 0)]))
            } else {
                Some(([e, top], [(usize::MAX, 0), (0, L - 1)]))
            }
        } else if n.lo < n.hi {
            let k = self.split[n.lo][n.hi];
            Some(([self.elem(n.lo, k), self.elem(k + 1, n.hi)], [(n.lo, k), (k + 1, n.hi)]))
        } else {
            None
        }
    }

    /// is (label, val) a real node of this tree?  (labels in compact form)
    pub fn is_node(&self, label: &NodeLabel, val: &AzksValue) -> bool {
        let compact = crate::util::words(&label.label_val)[0] & 0x0000_ffff_ffff_ffff == 0
            && crate::util::words(&label.label_val)[1] == 0
            && crate::util::words(&label.label_val)[2] == 0
            && crate::util::words(&label.label_val)[3] == 0;
        let vn = name_of(&val.0);
        let k = key_of(label);
        let mut found = label.label_len == 0 && k == 0 && compact && vn == self.root_name;
        // a root with a single child hashes the configuration's empty placeholder as its other
        // child: (empty label, empty node hash) is then a real operand of the root hash, and a
        // membership proof for it states something true (it is not a 256-bit label either)
        if !self.split_root && same_label(label, &TC::empty_label()) && crate::util::bytes_eq(&val.0, &TC::empty_node_hash().0) {
            found = true;
        }
        let mut lo = 0;
        while lo < L {
            let mut hi = lo;
            while hi < L {
                if self.reach[lo][hi] && !(self.split_root && lo == 0 && hi == L - 1) {
                    if compact && label.label_len == self.ll[lo][hi] && k == self.lk[lo][hi] && vn == self.hn[lo][hi] {
                        found = true;
                    }
                }
                hi += 1;
            }
            lo += 1;
        }
        found
    }

    pub fn is_leaf_key(&self, key: u16) -> bool {
        let mut i = 0;
        let mut f = false;
        while i < L {
            if self.keys[i] == key {
                f = true;
            }
            i += 1;
        }
        f
    }
}

#[inline(always)]
pub fn same_label(a: &NodeLabel, b: &NodeLabel) -> bool {
    a.label_len == b.label_len && crate::util::bytes_eq(&a.label_val, &b.label_val)
}
#[inline(always)]
pub fn same_val(a: &AzksValue, b: &AzksValue) -> bool {
    crate::util::bytes_eq(&a.0, &b.0)
}

/// A walk from the root: the node reached and the sibling proofs collected on the way. The
/// number of steps taken is concrete in every harness (directions are symbolic), so `depth` and
/// all indices into `sib` are concrete.
pub struct Walk {
    pub at: Node,
    pub sib: [SiblingProof; D],
    pub depth: usize,
    pub valid: bool,
}

pub fn no_sib() -> SiblingProof {
    SiblingProof {
        label: NodeLabel::new([0u8; 32], 0),
        siblings: [AzksElement { label: NodeLabel::new([0u8; 32], 0), value: AzksValue([0u8; 32]) }],
        direction: Direction::Left,
    }
}

impl Walk {
    pub fn start<TC: Configuration, const L: usize>(t: &Tree<TC, L>) -> Self {
        Walk { at: t.root(), sib: [no_sib(), no_sib(), no_sib(), no_sib(), no_sib()], depth: 0, valid: true }
    }

    /// go to the child in direction `right`; the walk becomes invalid if there is no such child
    pub fn step<TC: Configuration, const L: usize>(&mut self, t: &Tree<TC, L>, right: bool) {
        match t.children(&self.at) {
            None => self.valid = false,
            Some((elems, ivs)) => {
                let (c, o) = if right { (1, 0) } else { (0, 1) };
                if ivs[c].0 == usize::MAX {
                    self.valid = false;
                }
                let (clo, chi) = if ivs[c].0 == usize::MAX { (0, 0) } else { ivs[c] };
                self.sib[self.depth] = SiblingProof {
                    label: self.at.label,
                    siblings: [elems[o]],
                    direction: if right { Direction::Right } else { Direction::Left },
                };
                self.depth += 1;
                self.at = t.node(clo, chi);
            }
        }
    }

    pub fn sibling_vec(&self) -> Vec<SiblingProof> {
        sib_vec(&self.sib, self.depth)
    }

    pub fn membership_proof(&self) -> MembershipProof {
        MembershipProof { label: self.at.label, hash_val: self.at.val, sibling_proofs: self.sibling_vec() }
    }
}

/// Vec of the first `n` entries (n is concrete at every call site).
pub fn sib_vec(s: &[SiblingProof; D], n: usize) -> Vec<SiblingProof> {
    match n {
        0 => Vec::new(),
        1 => vec![s[0].clone()],
        2 => vec![s[0].clone(), s[1].clone()],
        3 => vec![s[0].clone(), s[1].clone(), s[2].clone()],
        4 => vec![s[0].clone(), s[1].clone(), s[2].clone(), s[3].clone()],
        _ => vec![s[0].clone(), s[1].clone(), s[2].clone(), s[3].clone(), s[4].clone()],
    }
}
