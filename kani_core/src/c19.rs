//! C19 (struct level) — proofs survive the protobuf message conversion unchanged; malformed
//! messages are rejected cleanly.
//!
//! Code under test: akd_core/src/proto/mod.rs `From` / `TryFrom` between the proof types and the
//! generated protobuf message structs (`encode_minimum_label`, `decode_minimized_label`,
//! `hash::try_parse_digest` through them). The byte-level wire codec of the third-party
//! `protobuf` crate is outside the claim.
#![cfg(kani)]
use crate::util::bytes_eq;
use akd_core::proto::specs::types as pb;
use akd_core::{AkdValue, AzksElement, AzksValue, Direction, LookupProof, MembershipProof, NodeLabel, NonMembershipProof, SiblingProof, UpdateProof};
use core::convert::TryFrom;
use protobuf::MessageField;

fn same_label(a: &NodeLabel, b: &NodeLabel) -> bool {
    a.label_len == b.label_len && bytes_eq(&a.label_val, &b.label_val)
}
fn same_elem(a: &AzksElement, b: &AzksElement) -> bool {
    same_label(&a.label, &b.label) && bytes_eq(&a.value.0, &b.value.0)
}
fn same_sib(a: &SiblingProof, b: &SiblingProof) -> bool {
    same_label(&a.label, &b.label) && same_elem(&a.siblings[0], &b.siblings[0]) && (a.direction as u8) == (b.direction as u8)
}
fn same_mp(a: &MembershipProof, b: &MembershipProof, n: usize) -> bool {
    if !(same_label(&a.label, &b.label) && bytes_eq(&a.hash_val.0, &b.hash_val.0) && a.sibling_proofs.len() == n && b.sibling_proofs.len() == n) {
        return false;
    }
    let mut i = 0;
    let mut ok = true;
    while i < n {
        ok &= same_sib(&a.sibling_proofs[i], &b.sibling_proofs[i]);
        i += 1;
    }
    ok
}
fn any_label() -> NodeLabel {
    let len: u32 = kani::any();
    kani::assume(len <= 256);
    NodeLabel::new(kani::any(), len)
}
fn any_elem() -> AzksElement {
    AzksElement { label: any_label(), value: AzksValue(kani::any()) }
}
fn any_sib() -> SiblingProof {
    SiblingProof { label: any_label(), siblings: [any_elem()], direction: if kani::any() { Direction::Left } else { Direction::Right } }
}
fn any_mp(n: usize) -> MembershipProof {
    MembershipProof {
        label: any_label(),
        hash_val: AzksValue(kani::any()),
        sibling_proofs: match n { 0 => Vec::with_capacity(1), 1 => vec![any_sib()], _ => vec![any_sib(), any_sib()] },
    }
}
fn bytes(n: usize) -> Vec<u8> {
    match n { 0 => Vec::with_capacity(1), 1 => vec![kani::any()], _ => vec![kani::any(), kani::any()] }
}

/// 1. NodeLabel: TryFrom(From(x)) = Ok(x) for every value and every length 0..=256
#[kani::proof]
#[kani::unwind(34)]
#[kani::stub(alloc::fmt::format, crate::util::format_stub)]
fn c19_label_roundtrip() {
    let x = any_label();
    let m: pb::NodeLabel = (&x).into();
    // the encoding is minimal: no trailing zero byte
    if let Some(v) = &m.label_val {
        assert!(v.len() <= 32);
        assert!(v.len() == 0 || v[v.len() - 1] != 0);
    }
    let y = NodeLabel::try_from(&m);
    match &y {
        Ok(y) => assert!(same_label(&x, y), "label changed by the protobuf round trip"),
        Err(_) => assert!(false, "valid label rejected after encoding"),
    }
    kani::cover!(x.label_len == 256 && x.label_val[31] == 0 && x.label_val[30] == 7);
    kani::cover!(x.label_len == 0 && bytes_eq(&x.label_val, &[0u8; 32]));
    core::mem::forget((m, y));
}

/// 2. NodeLabel message with arbitrary content: never panics; rejected exactly when a field is
/// missing, the value is longer than 32 bytes or the length exceeds 256; otherwise the decoded
/// label is the zero-padded value and survives a further round trip. `vlen` is concrete.
fn label_decode_any(vlen: usize) {
    let mut v: Vec<u8> = Vec::with_capacity(vlen + 1);
    let mut i = 0;
    while i < vlen {
        v.push(kani::any());
        i += 1;
    }
    let has_val: bool = kani::any();
    let has_len: bool = kani::any();
    let len: u32 = kani::any();
    let m = pb::NodeLabel { label_val: if has_val { Some(v.clone()) } else { None }, label_len: if has_len { Some(len) } else { None }, ..Default::default() };
    let y = NodeLabel::try_from(&m);
    let must_reject = !has_val || !has_len || vlen > 32 || len > 256;
    match &y {
        Ok(l) => {
            assert!(!must_reject, "malformed label message accepted");
            assert!(l.label_len == len);
            let mut i = 0;
            while i < 32 {
                let want = if i < vlen { v[i] } else { 0 };
                assert!(l.label_val[i] == want);
                i += 1;
            }
            let m2: pb::NodeLabel = l.into();
            let z = NodeLabel::try_from(&m2);
            assert!(matches!(&z, Ok(l2) if same_label(l, l2)), "decoded label does not survive re-encoding");
            core::mem::forget((m2, z));
        }
        Err(_) => assert!(must_reject, "well-formed label message rejected"),
    }
    kani::cover!(y.is_ok() || vlen > 32);
    kani::cover!(y.is_err());
    core::mem::forget((m, y, v));
}
macro_rules! label_any {
    ($name:ident, $n:expr) => {
        #[kani::proof]
        #[kani::unwind(36)]
        #[kani::stub(alloc::fmt::format, crate::util::format_stub)]
        fn $name() {
            label_decode_any($n);
        }
    };
}
label_any!(c19_label_decode_len0, 0);
label_any!(c19_label_decode_len1, 1);
label_any!(c19_label_decode_len31, 31);
label_any!(c19_label_decode_len32, 32);
label_any!(c19_label_decode_len33, 33);
label_any!(c19_label_decode_len34, 34);

/// 3. AzksElement: digest of any length; rejected exactly when label or value is missing /
/// malformed or the digest is not 32 bytes
fn elem_decode_any(dlen: usize) {
    let mut d: Vec<u8> = Vec::with_capacity(dlen + 1);
    let mut i = 0;
    while i < dlen {
        d.push(kani::any());
        i += 1;
    }
    let l = any_label();
    let has_label: bool = kani::any();
    let has_value: bool = kani::any();
    let m = pb::AzksElement {
        label: if has_label { MessageField::some((&l).into()) } else { MessageField::none() },
        value: if has_value { Some(d.clone()) } else { None },
        ..Default::default()
    };
    let y = AzksElement::try_from(&m);
    let must_reject = !has_label || !has_value || dlen != 32;
    match &y {
        Ok(e) => {
            assert!(!must_reject, "malformed element message accepted");
            assert!(same_label(&e.label, &l));
            let mut i = 0;
            while i < 32 {
                assert!(e.value.0[i] == d[i]);
                i += 1;
            }
        }
        Err(_) => assert!(must_reject, "well-formed element message rejected"),
    }
    kani::cover!(y.is_ok() || dlen != 32);
    kani::cover!(y.is_err());
    core::mem::forget((m, y, d));
}
macro_rules! elem_any {
    ($name:ident, $n:expr) => {
        #[kani::proof]
        #[kani::unwind(36)]
        #[kani::stub(alloc::fmt::format, crate::util::format_stub)]
        fn $name() {
            elem_decode_any($n);
        }
    };
}
elem_any!(c19_elem_decode_len0, 0);
elem_any!(c19_elem_decode_len31, 31);
elem_any!(c19_elem_decode_len32, 32);
elem_any!(c19_elem_decode_len33, 33);

/// 4. SiblingProof: any direction word, 0..=2 siblings; round trip
fn sibling_decode_any(nsib: usize) {
    let l = any_label();
    let e0 = any_elem();
    let e1 = any_elem();
    let dir: u32 = kani::any();
    let has_dir: bool = kani::any();
    let has_label: bool = kani::any();
    let sibs: Vec<pb::AzksElement> = match nsib { 0 => Vec::with_capacity(1), 1 => vec![(&e0).into()], _ => vec![(&e0).into(), (&e1).into()] };
    let m = pb::SiblingProof {
        label: if has_label { MessageField::some((&l).into()) } else { MessageField::none() },
        siblings: sibs,
        direction: if has_dir { Some(dir) } else { None },
        ..Default::default()
    };
    let y = SiblingProof::try_from(&m);
    let d = dir & 0xf;
    let must_reject = !has_dir || !has_label || nsib == 0 || d > 1;
    match &y {
        Ok(s) => {
            assert!(!must_reject, "malformed sibling proof message accepted");
            assert!(same_label(&s.label, &l) && same_elem(&s.siblings[0], &e0));
            assert!((s.direction as u32) == d);
        }
        Err(_) => assert!(must_reject, "well-formed sibling proof message rejected"),
    }
    kani::cover!(y.is_ok() || nsib == 0);
    kani::cover!(y.is_err());
    core::mem::forget((m, y));
}
macro_rules! sib_any {
    ($name:ident, $n:expr) => {
        #[kani::proof]
        #[kani::unwind(36)]
        #[kani::stub(alloc::fmt::format, crate::util::format_stub)]
        fn $name() {
            sibling_decode_any($n);
        }
    };
}
sib_any!(c19_sibling_decode_n0, 0);
sib_any!(c19_sibling_decode_n1, 1);
sib_any!(c19_sibling_decode_n2, 2);

/// 5. MembershipProof round trip (n siblings)
fn mp_roundtrip(n: usize) {
    let x = any_mp(n);
    let m: pb::MembershipProof = (&x).into();
    let y = MembershipProof::try_from(&m);
    assert!(matches!(&y, Ok(p) if same_mp(&x, p, n)), "membership proof changed by the protobuf round trip");
    kani::cover!(true);
    core::mem::forget((x, m, y));
}
#[kani::proof]
#[kani::unwind(36)]
#[kani::stub(alloc::fmt::format, crate::util::format_stub)]
fn c19_membership_roundtrip_n0() {
    mp_roundtrip(0);
}
#[kani::proof]
#[kani::unwind(36)]
#[kani::stub(alloc::fmt::format, crate::util::format_stub)]
fn c19_membership_roundtrip_n1() {
    mp_roundtrip(1);
}
#[kani::proof]
#[kani::unwind(36)]
#[kani::stub(alloc::fmt::format, crate::util::format_stub)]
fn c19_membership_roundtrip_n2() {
    mp_roundtrip(2);
}

/// 6. NonMembershipProof: round trip, and any number of children other than 2 is rejected
fn nmp_children(nchildren: usize) {
    let x = NonMembershipProof { label: any_label(), longest_prefix: any_label(), longest_prefix_children: [any_elem(), any_elem()], longest_prefix_membership_proof: any_mp(1) };
    let mut m: pb::NonMembershipProof = (&x).into();
    match nchildren {
        0 => { m.longest_prefix_children = Vec::with_capacity(1); }
        1 => { m.longest_prefix_children.pop(); }
        3 => { let e: pb::AzksElement = (&x.longest_prefix_children[0]).into(); m.longest_prefix_children.push(e); }
        _ => {}
    }
    let y = NonMembershipProof::try_from(&m);
    match &y {
        Ok(p) => {
            assert!(nchildren == 2, "non-membership proof message with a wrong number of children accepted");
            assert!(same_label(&p.label, &x.label) && same_label(&p.longest_prefix, &x.longest_prefix));
            assert!(same_elem(&p.longest_prefix_children[0], &x.longest_prefix_children[0]) && same_elem(&p.longest_prefix_children[1], &x.longest_prefix_children[1]));
            assert!(same_mp(&p.longest_prefix_membership_proof, &x.longest_prefix_membership_proof, 1));
        }
        Err(_) => assert!(nchildren != 2, "non-membership proof rejected after encoding"),
    }
    kani::cover!(y.is_ok() == (nchildren == 2));
    core::mem::forget((x, m, y));
}
macro_rules! nmp_any {
    ($name:ident, $n:expr) => {
        #[kani::proof]
        #[kani::unwind(36)]
        #[kani::stub(alloc::fmt::format, crate::util::format_stub)]
        fn $name() {
            nmp_children($n);
        }
    };
}
nmp_any!(c19_nonmembership_children0, 0);
nmp_any!(c19_nonmembership_children1, 1);
nmp_any!(c19_nonmembership_children2, 2);
nmp_any!(c19_nonmembership_children3, 3);

/// 7. LookupProof: round trip; a message with any one required field removed is rejected
fn lookup_roundtrip(drop_field: usize) {
    let nm = NonMembershipProof { label: any_label(), longest_prefix: any_label(), longest_prefix_children: [any_elem(), any_elem()], longest_prefix_membership_proof: any_mp(0) };
    let x = LookupProof {
        epoch: kani::any(), value: AkdValue(bytes(2)), version: kani::any(), existence_vrf_proof: bytes(1), existence_proof: any_mp(1),
        marker_vrf_proof: bytes(0), marker_proof: any_mp(0), freshness_vrf_proof: bytes(2), freshness_proof: nm, commitment_nonce: bytes(1),
    };
    let mut m: pb::LookupProof = (&x).into();
    match drop_field {
        1 => m.epoch = None,
        2 => m.value = None,
        3 => m.version = None,
        4 => m.existence_vrf_proof = None,
        5 => m.existence_proof = MessageField::none(),
        6 => m.marker_vrf_proof = None,
        7 => m.marker_proof = MessageField::none(),
        8 => m.freshness_vrf_proof = None,
        9 => m.freshness_proof = MessageField::none(),
        10 => m.commitment_nonce = None,
        _ => {}
    }
    let y = LookupProof::try_from(&m);
    match &y {
        Ok(p) => {
            assert!(drop_field == 0, "lookup proof message with a missing field accepted");
            assert!(p.epoch == x.epoch && p.version == x.version);
            assert!(p.value.0.len() == 2 && p.value.0[0] == x.value.0[0] && p.value.0[1] == x.value.0[1]);
            assert!(p.existence_vrf_proof.len() == 1 && p.existence_vrf_proof[0] == x.existence_vrf_proof[0]);
            assert!(p.marker_vrf_proof.len() == 0 && p.freshness_vrf_proof.len() == 2 && p.freshness_vrf_proof[1] == x.freshness_vrf_proof[1]);
            assert!(p.commitment_nonce.len() == 1 && p.commitment_nonce[0] == x.commitment_nonce[0]);
            assert!(same_mp(&p.existence_proof, &x.existence_proof, 1) && same_mp(&p.marker_proof, &x.marker_proof, 0));
            assert!(same_label(&p.freshness_proof.label, &x.freshness_proof.label) && same_label(&p.freshness_proof.longest_prefix, &x.freshness_proof.longest_prefix));
            assert!(same_elem(&p.freshness_proof.longest_prefix_children[1], &x.freshness_proof.longest_prefix_children[1]));
            assert!(same_mp(&p.freshness_proof.longest_prefix_membership_proof, &x.freshness_proof.longest_prefix_membership_proof, 0));
        }
        Err(_) => assert!(drop_field != 0, "lookup proof rejected after encoding"),
    }
    kani::cover!(y.is_ok() == (drop_field == 0));
    core::mem::forget((x, m, y));
}
macro_rules! lookup_any {
    ($name:ident, $n:expr) => {
        #[kani::proof]
        #[kani::unwind(36)]
        #[kani::stub(alloc::fmt::format, crate::util::format_stub)]
        fn $name() {
            lookup_roundtrip($n);
        }
    };
}
lookup_any!(c19_lookup_roundtrip, 0);
lookup_any!(c19_lookup_missing_epoch, 1);
lookup_any!(c19_lookup_missing_value, 2);
lookup_any!(c19_lookup_missing_version, 3);
lookup_any!(c19_lookup_missing_existence_vrf, 4);
lookup_any!(c19_lookup_missing_existence_proof, 5);
lookup_any!(c19_lookup_missing_marker_vrf, 6);
lookup_any!(c19_lookup_missing_marker_proof, 7);
lookup_any!(c19_lookup_missing_freshness_vrf, 8);
lookup_any!(c19_lookup_missing_freshness_proof, 9);
lookup_any!(c19_lookup_missing_nonce, 10);

/// 8. UpdateProof round trip, with and without the previous-version proof
fn update_roundtrip(with_prev: bool, vlen: usize, drop_field: usize) {
    // vlen 0 is the tombstone (akd_core::TOMBSTONE = &[]): present in the message, empty
    let x = UpdateProof {
        epoch: kani::any(), value: AkdValue(bytes(vlen)), version: kani::any(), existence_vrf_proof: bytes(2), existence_proof: any_mp(1),
        previous_version_vrf_proof: if with_prev { Some(bytes(1)) } else { None },
        previous_version_proof: if with_prev { Some(any_mp(0)) } else { None },
        commitment_nonce: bytes(2),
    };
    let mut m: pb::UpdateProof = (&x).into();
    match drop_field {
        1 => m.epoch = None,
        2 => m.value = None,
        3 => m.version = None,
        4 => m.existence_vrf_proof = None,
        5 => m.existence_proof = MessageField::none(),
        6 => m.commitment_nonce = None,
        _ => {}
    }
    let y = UpdateProof::try_from(&m);
    match &y {
        Ok(p) => {
            assert!(drop_field == 0, "update proof message with a missing required field accepted");
            assert!(p.epoch == x.epoch && p.version == x.version && p.value.0.len() == vlen, "update proof changed by the protobuf round trip");
            if vlen > 0 {
                assert!(p.value.0[0] == x.value.0[0]);
            }
            assert!(p.existence_vrf_proof.len() == 2 && p.existence_vrf_proof[1] == x.existence_vrf_proof[1] && p.commitment_nonce.len() == 2 && p.commitment_nonce[0] == x.commitment_nonce[0]);
            assert!(same_mp(&p.existence_proof, &x.existence_proof, 1));
            assert!(p.previous_version_vrf_proof.is_some() == with_prev && p.previous_version_proof.is_some() == with_prev);
            if with_prev {
                assert!(p.previous_version_vrf_proof.as_ref().unwrap().len() == 1 && p.previous_version_vrf_proof.as_ref().unwrap()[0] == x.previous_version_vrf_proof.as_ref().unwrap()[0]);
                assert!(same_mp(p.previous_version_proof.as_ref().unwrap(), x.previous_version_proof.as_ref().unwrap(), 0));
            }
        }
        Err(_) => assert!(drop_field != 0, "update proof rejected after encoding"),
    }
    kani::cover!(y.is_ok() == (drop_field == 0));
    core::mem::forget((x, m, y));
}
macro_rules! upd {
    ($name:ident, $prev:expr, $vlen:expr, $drop:expr) => {
        #[kani::proof]
        #[kani::unwind(36)]
        #[kani::stub(alloc::fmt::format, crate::util::format_stub)]
        fn $name() {
            update_roundtrip($prev, $vlen, $drop);
        }
    };
}
upd!(c19_update_roundtrip_with_prev, true, 1, 0);
upd!(c19_update_roundtrip_without_prev, false, 1, 0);
upd!(c19_update_roundtrip_tombstone_with_prev, true, 0, 0);
upd!(c19_update_roundtrip_tombstone_without_prev, false, 0, 0);
upd!(c19_update_missing_epoch, true, 1, 1);
upd!(c19_update_missing_value, false, 1, 2);
upd!(c19_update_missing_version, true, 1, 3);
upd!(c19_update_missing_existence_vrf, false, 1, 4);
upd!(c19_update_missing_existence_proof, true, 1, 5);
upd!(c19_update_missing_nonce, false, 1, 6);

include!("playback_c19.rs");
