//! C07, shape layer: akd_core::verify::history::verify_with_history_params (through the
//! facebook_akd_verif hook) accepts a proof only if its update proofs are for consecutive,
//! decreasing versions end..end-k+1 with start >= 1, end <= epoch, the start / count relation the
//! parameter demands, and marker vectors of exactly the lengths of the marker sets it returns.
//! This is what justifies the concrete consecutive versions of the glue-level instances (c07l2).
#![cfg(kani)]
use crate::marker_table::{EMAX, FUT, PAST};
use akd_core::verify::history::verif_hooks::verify_with_history_params;
use akd_core::verify::history::HistoryParams;
use akd_core::{AkdLabel, AkdValue, AzksElement, AzksValue, HistoryProof, MembershipProof, NodeLabel, NonMembershipProof, UpdateProof};

fn dummy_mp() -> MembershipProof {
    MembershipProof { label: NodeLabel::root(), hash_val: AzksValue([0u8; 32]), sibling_proofs: Vec::new() }
}
fn dummy_nmp() -> NonMembershipProof {
    let e = AzksElement { label: NodeLabel::root(), value: AzksValue([0u8; 32]) };
    NonMembershipProof { label: NodeLabel::root(), longest_prefix: NodeLabel::root(), longest_prefix_children: [e, e], longest_prefix_membership_proof: dummy_mp() }
}
fn upd(version: u64) -> UpdateProof {
    UpdateProof { epoch: kani::any(), value: AkdValue(Vec::new()), version, existence_vrf_proof: Vec::new(), existence_proof: dummy_mp(),
        previous_version_vrf_proof: None, previous_version_proof: None, commitment_nonce: Vec::new() }
}
fn mps(n: usize) -> Vec<MembershipProof> {
    match n { 0 => Vec::with_capacity(1), 1 => vec![dummy_mp()], 2 => vec![dummy_mp(), dummy_mp()], _ => vec![dummy_mp(), dummy_mp(), dummy_mp()] }
}
fn nmps(n: usize) -> Vec<NonMembershipProof> {
    match n { 0 => Vec::with_capacity(1), 1 => vec![dummy_nmp()], 2 => vec![dummy_nmp(), dummy_nmp()], 3 => vec![dummy_nmp(), dummy_nmp(), dummy_nmp()], _ => vec![dummy_nmp(), dummy_nmp(), dummy_nmp(), dummy_nmp()] }
}
fn bv(n: usize) -> Vec<Vec<u8>> {
    match n { 0 => Vec::with_capacity(1), 1 => vec![Vec::new()], 2 => vec![Vec::new(), Vec::new()], 3 => vec![Vec::new(), Vec::new(), Vec::new()], _ => vec![Vec::new(), Vec::new(), Vec::new(), Vec::new()] }
}

/// k update proofs with SYMBOLIC versions; the four marker vectors have the concrete lengths
/// (a, b, c, d); current epoch symbolic <= EMAX; parameter symbolic.
fn shape<const K: usize>(a: usize, b: usize, c: usize, d: usize) {
    let e: u64 = kani::any();
    kani::assume(e <= EMAX);
    let mut vers = [0u64; K];
    let mut i = 0;
    while i < K {
        vers[i] = kani::any();
        // versions far above the epoch are rejected by `end_version > current_epoch`; keeping them
        // small keeps the marker-table stub inside its domain on every path
        kani::assume(vers[i] <= EMAX + 1);
        i += 1;
    }
    let ups: Vec<UpdateProof> = match K {
        0 => Vec::with_capacity(1),
        1 => vec![upd(vers[0])],
        2 => vec![upd(vers[0]), upd(vers[1 % K])],
        3 => vec![upd(vers[0]), upd(vers[1 % K]), upd(vers[2 % K])],
        _ => vec![upd(vers[0]), upd(vers[1 % K]), upd(vers[2 % K]), upd(vers[3 % K])],
    };
    let proof = HistoryProof { update_proofs: ups, past_marker_vrf_proofs: bv(a), existence_of_past_marker_proofs: mps(b),
        future_marker_vrf_proofs: bv(c), non_existence_of_future_marker_proofs: nmps(d) };
    let recent: usize = kani::any();
    kani::assume(recent <= 6);
    let complete: bool = kani::any();
    let hp = if complete { HistoryParams::Complete } else { HistoryParams::MostRecent(recent) };
    let r = verify_with_history_params(e, &AkdLabel(Vec::new()), &proof, hp);
    if let Ok((past, fut)) = &r {
        assert!(K >= 1, "empty history accepted");
        // consecutive and decreasing
        let mut i = 1;
        while i < K {
            assert!(vers[i] + 1 == vers[i - 1], "update proofs accepted although their versions are not consecutive and decreasing");
            i += 1;
        }
        let end = vers[0];
        let start = vers[K - 1];
        assert!(start >= 1, "history starting at version 0 accepted");
        assert!(end <= e, "history ending after the current epoch accepted");
        if complete {
            assert!(start == 1, "complete history accepted although it does not start at version 1");
        } else {
            assert!(K <= recent, "more update proofs than requested accepted");
            assert!(K == recent || start == 1, "fewer update proofs than requested accepted although the history does not reach version 1");
        }
        // the marker sets are those of (start, end, epoch) and the proof carries exactly as many proofs
        let (pl, p) = PAST[start as usize];
        let (fl, f) = FUT[end as usize][e as usize];
        assert!(past.len() == pl && fut.len() == fl);
        let mut j = 0;
        while j < 3 {
            if j < pl {
                assert!(past[j] == p[j]);
            }
            j += 1;
        }
        let mut j = 0;
        while j < 4 {
            if j < fl {
                assert!(fut[j] == f[j]);
            }
            j += 1;
        }
        assert!(a == pl && b == pl && c == fl && d == fl, "history accepted with omitted or surplus marker proofs");
    }
    kani::cover!(r.is_err());
    // an accepted proof must exist whenever some (start, end, epoch) has marker sets of these sizes
    kani::cover!(r.is_ok() || a != b || c != d || !feasible(K, a, c));
    core::mem::forget(r);
    core::mem::forget(proof);
}

/// is there (start, end = start + k - 1, epoch) in the table's domain whose marker sets have
/// np past and nf future elements?  (concrete computation)
fn feasible(k: usize, np: usize, nf: usize) -> bool {
    if k == 0 {
        return false;
    }
    let mut e = 1u64;
    let mut found = false;
    while e <= EMAX {
        let mut end = k as u64;
        while end <= e {
            let start = end + 1 - k as u64;
            if PAST[start as usize].0 == np && FUT[end as usize][e as usize].0 == nf {
                found = true;
            }
            end += 1;
        }
        e += 1;
    }
    found
}

macro_rules! sh {
    ($name:ident, $k:expr, $a:expr, $b:expr, $c:expr, $d:expr) => {
        #[kani::proof]
        #[kani::unwind(9)]
        #[kani::stub(alloc::fmt::format, crate::util::format_stub)]
        #[kani::stub(akd_core::utils::get_marker_versions, crate::c07::marker_table_stub)]
        fn $name() {
            shape::<$k>($a, $b, $c, $d);
        }
    };
}
include!("c07shape_instances.rs");

include!("playback_c07shape.rs");
