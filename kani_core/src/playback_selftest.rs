/// Test generated for harness `selftest::selftest_must_fail` 
///
/// Check for `assertion`: "assertion failed: p.label_val[1] == l.label_val[1]"

#[test]
fn kani_concrete_playback_selftest_must_fail_15652116786939730868() {
    let concrete_vals: Vec<Vec<u8>> = vec![
        // 0
        vec![0],
        // 64
        vec![64],
        // 0
        vec![0],
        // 0
        vec![0],
        // 0
        vec![0],
        // 0
        vec![0],
        // 0
        vec![0],
        // 0
        vec![0],
        // 0
        vec![0],
        // 0
        vec![0],
        // 0
        vec![0],
        // 0
        vec![0],
        // 0
        vec![0],
        // 0
        vec![0],
        // 0
        vec![0],
        // 0
        vec![0],
        // 0
        vec![0],
        // 0
        vec![0],
        // 0
        vec![0],
        // 0
        vec![0],
        // 0
        vec![0],
        // 0
        vec![0],
        // 0
        vec![0],
        // 0
        vec![0],
        // 0
        vec![0],
        // 0
        vec![0],
        // 0
        vec![0],
        // 0
        vec![0],
        // 0
        vec![0],
        // 0
        vec![0],
        // 0
        vec![0],
        // 0
        vec![0],
    ];
    kani::concrete_playback_run(concrete_vals, selftest_must_fail);
}
