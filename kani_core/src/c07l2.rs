//! Specifications of the four base.rs verification helpers over the honest state (`dirmodel::H`)
//! -- the real helpers are decided against them in module c07l1 -- and the symbolic honest state /
//! adversary material shared by c07l1 and c07upd.
//! (A "glue" layer that ran key_history_verify with the helpers replaced by these specifications
//! was built and withdrawn: under Kani 0.68 its harnesses were either vacuous or read garbage
//! results because of the drop-glue artefact described in DESIGN.md; it is not claimed.)
#![cfg(kani)]
use crate::dirmodel::{self, Honest, NMAX};
use crate::model::{dg, name_of, vrf_label, ModelEXP, ModelWA};
use crate::trie::same_label;
use akd_core::hash::Digest;
use akd_core::verify::history::HistoryParams;
use akd_core::verify::{key_history_verify, HistoryVerificationParams, VerificationError};
use akd_core::{AkdLabel, AkdValue, AzksValue, Configuration, HistoryProof, MembershipProof, NodeLabel, NonMembershipProof, UpdateProof, VerifyResult, VersionFreshness};

fn err() -> VerificationError {
    VerificationError::HistoryProof(String::new())
}

fn fresh_leaf(h: &Honest, version: u64, mp: &MembershipProof) -> bool {
    (version as usize) < crate::model::VMAX && version >= 1 && version <= h.n && same_label(&mp.label, &vrf_label(true, version)) && name_of(&mp.hash_val.0) == h.fresh_hash[(version - 1) as usize]
}
fn stale_leaf(h: &Honest, version: u64, mp: &MembershipProof) -> bool {
    (version as usize) < crate::model::VMAX && version >= 1 && version < h.n && !(h.pmode == 1 && h.pv == version) && same_label(&mp.label, &vrf_label(false, version))
        && name_of(&mp.hash_val.0) == h.stale_hash[(version - 1) as usize]
}

/// spec of base::verify_existence_with_val against the honest tree
#[allow(clippy::too_many_arguments)]
pub fn spec_existence_with_val<TC: Configuration>(_pk: &[u8], _root: Digest, _l: &AkdLabel, value: &AkdValue, epoch: u64, nonce: &[u8],
    freshness: VersionFreshness, version: u64, _vrf: &[u8], mp: &MembershipProof) -> Result<(), VerificationError> {
    let h = unsafe { dirmodel::H };
    if freshness == VersionFreshness::Fresh && fresh_leaf(&h, version, mp) {
        let i = (version - 1) as usize;
        if value.0.len() == 1 && value.0[0] == h.val[i] && epoch == h.ep[i] && nonce.len() == 1 && nonce[0] == h.nonce[i] {
            return Ok(());
        }
    }
    Err(err())
}
/// spec of base::verify_existence
pub fn spec_existence<TC: Configuration>(_pk: &[u8], _root: Digest, _l: &AkdLabel, freshness: VersionFreshness, version: u64, _vrf: &[u8],
    mp: &MembershipProof) -> Result<(), VerificationError> {
    let h = unsafe { dirmodel::H };
    let ok = if freshness == VersionFreshness::Fresh { fresh_leaf(&h, version, mp) } else { stale_leaf(&h, version, mp) };
    if ok { Ok(()) } else { Err(err()) }
}
/// spec of base::verify_existence_with_commitment (only used with the stale commitment)
#[allow(clippy::too_many_arguments)]
pub fn spec_existence_with_commitment<TC: Configuration>(_pk: &[u8], _root: Digest, _l: &AkdLabel, commitment: AzksValue, epoch: u64,
    freshness: VersionFreshness, version: u64, _vrf: &[u8], mp: &MembershipProof) -> Result<(), VerificationError> {
    let h = unsafe { dirmodel::H };
    // the stale leaf of `version` carries H(stale value, epoch of version+1) (or the perturbed epoch)
    let is_stale_commitment = crate::util::bytes_eq(&commitment.0, &TC::stale_azks_value().0);
    if freshness == VersionFreshness::Stale && is_stale_commitment && stale_leaf(&h, version, mp) && epoch == h.stale_ep[(version - 1) as usize] {
        Ok(())
    } else {
        Err(err())
    }
}
/// spec of base::verify_nonexistence
pub fn spec_nonexistence<TC: Configuration>(_pk: &[u8], _root: Digest, _l: &AkdLabel, freshness: VersionFreshness, version: u64, _vrf: &[u8],
    nmp: &NonMembershipProof) -> Result<(), VerificationError> {
    let h = unsafe { dirmodel::H };
    let fresh = freshness == VersionFreshness::Fresh;
    if (version as usize) >= crate::model::VMAX || !same_label(&nmp.label, &vrf_label(fresh, version)) {
        return Err(err());
    }
    let present = if fresh { version >= 1 && version <= h.n } else { version >= 1 && version < h.n && !(h.pmode == 1 && h.pv == version) };
    if present { Err(err()) } else { Ok(()) }
}

// ------------------------------------------------------------------------------------------------
/// Symbolic honest state at the concrete current epoch `e`. Under Kani with `abstract_hashes`
/// the leaf hashes are pairwise distinct symbolic names (no hashing, layer 2); otherwise, and
/// always natively (replay), they are computed through the configuration under test.
pub fn honest_state<TC: Configuration>(pmode: u8, e: u64, abstract_hashes: bool) -> (u64, [u8; NMAX], [u64; NMAX]) {
    crate::model::reset();
    crate::model::init_constants();
    unsafe {
        let mut f = 0;
        while f < 2 {
            let mut v = 0;
            while v < crate::model::VMAX {
                crate::model::VRF_LEAD[f][v] = kani::any();
                v += 1;
            }
            f += 1;
        }
    }
    let n: u64 = kani::any();
    kani::assume(n >= 1 && n <= NMAX as u64);
    let val: [u8; NMAX] = kani::any();
    let nonce: [u8; NMAX] = kani::any();
    let ep: [u64; NMAX] = kani::any();
    kani::assume(ep[0] >= 1);
    let mut v = 0;
    while v < NMAX {
        if (v as u64) < n {
            kani::assume(ep[v] <= e);
            if v > 0 {
                kani::assume(ep[v - 1] < ep[v]);
            }
        }
        v += 1;
    }
    // draw the perturbation only when it is used: Kani's concrete playback omits values of
    // kani::any() calls that do not influence the trace, which would shift every later value
    let (pv, pep) = if pmode != 0 {
        let pv: u64 = kani::any();
        let pep: u64 = kani::any();
        kani::assume(pv >= 1 && pv < n && pep <= e && pep != ep[pv as usize]);
        (pv, pep)
    } else {
        (0, 0)
    };
    let _ = abstract_hashes;
    dirmodel::install::<TC>(n, val, nonce, ep, pmode, pv, pep);
    (n, val, ep)
}

/// a node label the adversary can present: the VRF label of any (freshness, version) of this
/// AkdLabel (it holds the key), or any other 256-bit label
pub fn any_label() -> NodeLabel {
    if kani::any() {
        let v: u64 = kani::any();
        kani::assume((v as usize) < crate::model::VMAX);
        vrf_label(kani::any(), v)
    } else {
        let k: u16 = kani::any();
        crate::trie::key_label(k, 256)
    }
}
/// a leaf hash the adversary can present, chosen by reference: the hash of any honest fresh or
/// stale leaf, or a value that is no leaf's hash
pub fn any_leaf_hash() -> AzksValue {
    let h = unsafe { dirmodel::H };
    let sel: u8 = kani::any();
    let i = (sel % NMAX as u8) as usize;
    let name = match sel / NMAX as u8 {
        0 => h.fresh_hash[i],
        1 => h.stale_hash[i],
        _ => crate::model::RAW0 + 0x200 + sel as u16,
    };
    AzksValue(dg(name))
}
pub fn any_mp<TC: Configuration>() -> MembershipProof {
    dirmodel::membership_proof::<TC>(any_label(), any_leaf_hash())
}
pub fn any_nmp<TC: Configuration>() -> NonMembershipProof {
    dirmodel::nonmembership_proof::<TC>(any_label())
}
