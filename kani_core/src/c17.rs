//! C17 — node-label operations agree with their bit-string meaning.
#![cfg(kani)]
use crate::util::*;
use akd_core::{NodeLabel, PrefixOrdering};
use akd_core::{ExperimentalConfiguration, WhatsAppV1Configuration};
type Exp = ExperimentalConfiguration<akd_core::ExampleLabel>;
type Wa = WhatsAppV1Configuration;

fn any_label(max_len: u32) -> NodeLabel {
    let val: [u8; 32] = kani::any();
    let len: u32 = kani::any();
    kani::assume(len <= max_len);
    NodeLabel::new(val, len)
}

/// get_prefix(n) is the canonical zero-padded n-bit prefix; n >= 256 returns self.
#[kani::proof]
#[kani::unwind(34)]
fn c17_get_prefix_all() {
    let l = any_label(256);
    let n: u32 = kani::any();
    let p = l.get_prefix(n);
    if n >= 256 {
        assert!(p == l);
    } else {
        assert!(p.label_len == n);
        assert!(first_bits_equal(&p.label_val, &l.label_val, n));
        // everything beyond bit n is zero
        let mut k: u32 = 0;
        while k < 32 {
            let lo = k * 8;
            let nb = if n <= lo { 0 } else if n - lo >= 8 { 8 } else { n - lo };
            assert!(p.label_val[k as usize] & !mask8(nb) == 0);
            k += 1;
        }
    }
    kani::cover!(n == 9 && l.label_val[1] == 0xff);
    kani::cover!(n == 255);
}

/// get_prefix_ordering = next bit of `other` after `self`, or Invalid.
#[kani::proof]
#[kani::unwind(34)]
#[kani::stub(alloc::fmt::format, crate::util::format_stub)]
fn c17_prefix_ordering_all() {
    let a = any_label(256);
    let b = any_label(256);
    let r = a.get_prefix_ordering(b);
    let expect = if a.label_len >= b.label_len {
        PrefixOrdering::Invalid
    } else if !first_bits_equal(&a.label_val, &b.label_val, a.label_len) {
        PrefixOrdering::Invalid
    } else if bit(&b.label_val, a.label_len) == 0 {
        PrefixOrdering::WithZero
    } else {
        PrefixOrdering::WithOne
    };
    assert!(r == expect);
    kani::cover!(r == PrefixOrdering::WithOne && a.label_len == 16);
    kani::cover!(r == PrefixOrdering::WithZero && a.label_len == 255);
}

/// Ord = (length, bytes lexicographic).
#[kani::proof]
#[kani::unwind(34)]
fn c17_ord_all() {
    let a = any_label(u32::MAX);
    let b = any_label(u32::MAX);
    let r = a.cmp(&b);
    let mut expect = core::cmp::Ordering::Equal;
    if a.label_len != b.label_len {
        expect = if a.label_len < b.label_len { core::cmp::Ordering::Less } else { core::cmp::Ordering::Greater };
    } else {
        let mut k = 0usize;
        let mut done = false;
        while k < 32 {
            if !done && a.label_val[k] != b.label_val[k] {
                expect = if a.label_val[k] < b.label_val[k] { core::cmp::Ordering::Less } else { core::cmp::Ordering::Greater };
                done = true;
            }
            k += 1;
        }
    }
    assert!(r == expect);
    assert!((r == core::cmp::Ordering::Equal) == (a == b));
    kani::cover!(r == core::cmp::Ordering::Greater && a.label_len == b.label_len);
}

/// Oracle parameters: how "first n bits agree" and "number of common leading bits" are computed
/// for the label shapes of one harness family (loop-free in both families).
#[derive(Clone, Copy)]
enum Shape {
    /// labels of at most 40 bits; all 32 bytes symbolic
    Top40,
    /// bytes lo..lo+4 symbolic, every other byte the same concrete padding in both labels
    Window { lo: usize },
}

fn win32(v: &[u8; 32], lo: usize) -> u32 {
    ((v[lo] as u32) << 24) | ((v[lo + 1] as u32) << 16) | ((v[lo + 2] as u32) << 8) | (v[lo + 3] as u32)
}

fn o_first_equal(sh: Shape, a: &[u8; 32], b: &[u8; 32], n: u32) -> bool {
    match sh {
        Shape::Top40 => first_bits_equal40(a, b, n),
        Shape::Window { lo } => {
            let start = 8 * lo as u32;
            if n <= start {
                true
            } else {
                let m = if n - start > 32 { 32 } else { n - start };
                ((win32(a, lo) ^ win32(b, lo)) >> (32 - m)) == 0
            }
        }
    }
}

fn o_common(sh: Shape, a: &[u8; 32], b: &[u8; 32], cap: u32) -> u32 {
    match sh {
        Shape::Top40 => common_bits40(a, b, cap),
        Shape::Window { lo } => {
            let x = win32(a, lo) ^ win32(b, lo);
            if x == 0 {
                cap
            } else {
                let n = 8 * lo as u32 + x.leading_zeros();
                if n > cap { cap } else { n }
            }
        }
    }
}

/// is_prefix_of <=> bit-string prefix
fn check_prefix(sh: Shape, a: NodeLabel, b: NodeLabel) {
    let got = a.is_prefix_of(&b);
    let want = a.label_len <= b.label_len && o_first_equal(sh, &a.label_val, &b.label_val, a.label_len);
    assert!(got == want);
}

/// get_longest_common_prefix = canonical prefix whose length is the number of common leading
/// bits (capped by the shorter length); the configuration's empty label is absorbing.
fn check_lcp<TC: akd_core::Configuration>(sh: Shape, a: NodeLabel, b: NodeLabel) {
    let shorter = if a.label_len < b.label_len { a.label_len } else { b.label_len };
    let n = o_common(sh, &a.label_val, &b.label_val, shorter);
    let e = a.get_longest_common_prefix::<TC>(b);
    let empty = TC::empty_label();
    let a_empty = a.label_len == empty.label_len && bytes_eq(&a.label_val, &empty.label_val);
    let b_empty = b.label_len == empty.label_len && bytes_eq(&b.label_val, &empty.label_val);
    if a_empty || b_empty {
        assert!(e.label_len == empty.label_len && bytes_eq(&e.label_val, &empty.label_val));
    } else {
        assert!(e.label_len == n);
        // e is the canonical n-bit prefix of a (get_prefix is checked against the oracle separately)
        let p = a.get_prefix(n);
        assert!(bytes_eq(&e.label_val, &p.label_val));
        // symmetric
        let e2 = b.get_longest_common_prefix::<TC>(a);
        assert!(e2.label_len == n && bytes_eq(&e2.label_val, &e.label_val));
    }
}

macro_rules! full_harness {
    ($pname:ident, $lname_e:ident, $lname_w:ident, $maxlen:expr, $unw:expr) => {
        /// both labels fully symbolic, lengths 0..=$maxlen: prefix test
        #[kani::proof]
        #[kani::unwind($unw)]
        #[kani::stub(alloc::fmt::format, crate::util::format_stub)]
        fn $pname() {
            let a = any_label($maxlen);
            let b = any_label($maxlen);
            check_prefix(Shape::Top40, a, b);
            kani::cover!(a.label_len == $maxlen && b.label_len == $maxlen && a.label_val[0] == 0xa5 && a.is_prefix_of(&b));
        }
        #[kani::proof]
        #[kani::unwind($unw)]
        #[kani::stub(alloc::fmt::format, crate::util::format_stub)]
        fn $lname_e() {
            let a = any_label($maxlen);
            let b = any_label($maxlen);
            check_lcp::<Exp>(Shape::Top40, a, b);
            kani::cover!(a.label_len == $maxlen && b.label_len == $maxlen && a.label_val[0] == 0xa5 && a.label_val[0] == b.label_val[0]);
        }
        #[kani::proof]
        #[kani::unwind($unw)]
        #[kani::stub(alloc::fmt::format, crate::util::format_stub)]
        fn $lname_w() {
            let a = any_label($maxlen);
            let b = any_label($maxlen);
            check_lcp::<Wa>(Shape::Top40, a, b);
            kani::cover!(a.label_len == $maxlen && b.label_len == $maxlen && a.label_val[0] == 0xa5 && a.label_val[0] == b.label_val[0]);
        }
    };
}
full_harness!(c17_prefix_full_6, c17_lcp_full_6_exp, c17_lcp_full_6_wa, 6, 8);
full_harness!(c17_prefix_full_10, c17_lcp_full_10_exp, c17_lcp_full_10_wa, 10, 12);
full_harness!(c17_prefix_full_16, c17_lcp_full_16_exp, c17_lcp_full_16_wa, 16, 18);
full_harness!(c17_prefix_full_24, c17_lcp_full_24_exp, c17_lcp_full_24_wa, 24, 26);
full_harness!(c17_prefix_full_32, c17_lcp_full_32_exp, c17_lcp_full_32_wa, 32, 34);

/// Window harness: lengths anywhere in 0..=256; bytes LO..LO+4 symbolic, all other bytes a
/// concrete padding byte (the same in both labels, so a common prefix can run through them).
fn window_labels(lo: usize, pad: u8) -> (NodeLabel, NodeLabel) {
    let mut av = [pad; 32];
    let mut bv = [pad; 32];
    let mut j = lo;
    while j < lo + 4 {
        av[j] = kani::any();
        bv[j] = kani::any();
        j += 1;
    }
    let alen: u32 = kani::any();
    let blen: u32 = kani::any();
    kani::assume(alen <= 256 && blen <= 256);
    (NodeLabel::new(av, alen), NodeLabel::new(bv, blen))
}

macro_rules! window_harness {
    ($pname:ident, $lname_e:ident, $lname_w:ident, $lo:expr, $pad:expr) => {
        #[kani::proof]
        #[kani::unwind(258)]
        #[kani::stub(alloc::fmt::format, crate::util::format_stub)]
        fn $pname() {
            let (a, b) = window_labels($lo, $pad);
            check_prefix(Shape::Window { lo: $lo }, a, b);
            kani::cover!(a.is_prefix_of(&b) && a.label_len as usize == 8 * $lo + 9 && a.label_val[$lo + 1] == 0x80);
            kani::cover!(a.label_len == 256 && b.label_len == 256 && a.is_prefix_of(&b));
        }
        #[kani::proof]
        #[kani::unwind(258)]
        #[kani::stub(alloc::fmt::format, crate::util::format_stub)]
        fn $lname_e() {
            let (a, b) = window_labels($lo, $pad);
            check_lcp::<Exp>(Shape::Window { lo: $lo }, a, b);
            kani::cover!(a.label_len == 256 && b.label_len == 256 && a.label_val[$lo + 3] != b.label_val[$lo + 3] && a.label_val[$lo] == b.label_val[$lo]);
        }
        #[kani::proof]
        #[kani::unwind(258)]
        #[kani::stub(alloc::fmt::format, crate::util::format_stub)]
        fn $lname_w() {
            let (a, b) = window_labels($lo, $pad);
            check_lcp::<Wa>(Shape::Window { lo: $lo }, a, b);
            kani::cover!(a.label_len == 256 && b.label_len == 256 && a.label_val[$lo + 3] != b.label_val[$lo + 3] && a.label_val[$lo] == b.label_val[$lo]);
        }
    };
}
window_harness!(c17_prefix_win00_z, c17_lcp_win00_z_exp, c17_lcp_win00_z_wa, 0, 0x00);
window_harness!(c17_prefix_win28_f, c17_lcp_win28_f_exp, c17_lcp_win28_f_wa, 28, 0xff);

/// Concrete-length harnesses: all 32 bytes of both labels symbolic, the two lengths concrete
/// (so loop bounds are concrete and the error-message machinery is pruned by the symbolic
/// executor). One harness covers the nine length pairs {8k-1, 8k, 8k+1}^2 around byte boundary k.
fn check_pair_concrete_len<TC: akd_core::Configuration>(alen: u32, blen: u32) {
    let a = NodeLabel::new(kani::any(), alen);
    let b = NodeLabel::new(kani::any(), blen);
    let got = a.is_prefix_of(&b);
    let want = alen <= blen && first_bits_equal(&a.label_val, &b.label_val, alen);
    assert!(got == want);
    let shorter = if alen < blen { alen } else { blen };
    let n = common_bits(&a.label_val, &b.label_val, shorter);
    let e = a.get_longest_common_prefix::<TC>(b);
    let empty = TC::empty_label();
    let a_empty = alen == 0 && bytes_eq(&a.label_val, &empty.label_val);
    let b_empty = blen == 0 && bytes_eq(&b.label_val, &empty.label_val);
    if a_empty || b_empty {
        assert!(e.label_len == 0 && bytes_eq(&e.label_val, &empty.label_val));
    } else {
        assert!(e.label_len == n);
        assert!(first_bits_equal(&e.label_val, &a.label_val, n));
        let p = a.get_prefix(n);
        assert!(bytes_eq(&e.label_val, &p.label_val));
    }
}

fn boundary<TC: akd_core::Configuration>(k: u32) {
    let base = 8 * k;
    let mut da = 0u32;
    while da < 3 {
        let mut db = 0u32;
        while db < 3 {
            if base + da >= 1 && base + db >= 1 && base + da <= 257 && base + db <= 257 {
                check_pair_concrete_len::<TC>(base + da - 1, base + db - 1);
            }
            db += 1;
        }
        da += 1;
    }
}

macro_rules! boundary_harness {
    ($name_e:ident, $name_w:ident, $k:expr) => {
        #[kani::proof]
        #[kani::unwind(258)]
        #[kani::stub(alloc::fmt::format, crate::util::format_stub)]
        fn $name_e() {
            boundary::<Exp>($k);
            kani::cover!(true);
        }
        #[kani::proof]
        #[kani::unwind(258)]
        #[kani::stub(alloc::fmt::format, crate::util::format_stub)]
        fn $name_w() {
            boundary::<Wa>($k);
            kani::cover!(true);
        }
    };
}
boundary_harness!(c17_bnd_01_exp, c17_bnd_01_wa, 1);
boundary_harness!(c17_bnd_32_exp, c17_bnd_32_wa, 32);

/// concrete-length pairs: all 64 bytes of the two labels symbolic, lengths concrete (reaches
/// lengths far beyond what the symbolic-length harnesses can afford)
macro_rules! pair_harness {
    ($name:ident, $tc:ty, $a:expr, $b:expr) => {
        #[kani::proof]
        #[kani::unwind(258)]
        #[kani::stub(alloc::fmt::format, crate::util::format_stub)]
        fn $name() {
            check_pair_concrete_len::<$tc>($a, $b);
            kani::cover!(true);
        }
    };
}
pair_harness!(c17_pair_33_40_wa, Wa, 33, 40);
pair_harness!(c17_pair_40_33_exp, Exp, 40, 33);
pair_harness!(c17_pair_48_48_wa, Wa, 48, 48);
pair_harness!(c17_pair_64_65_exp, Exp, 64, 65);
pair_harness!(c17_pair_71_72_wa, Wa, 71, 72);
pair_harness!(c17_pair_128_130_wa, Wa, 128, 130);
pair_harness!(c17_pair_255_256_wa, Wa, 255, 256);
pair_harness!(c17_pair_256_256_exp, Exp, 256, 256);

include!("playback_c17.rs");

#[kani::proof]
#[kani::unwind(258)]
#[kani::stub(alloc::fmt::format, crate::util::format_stub)]
fn c17_pair_256_256_wa() {
    check_pair_concrete_len::<Wa>(256, 256);
    kani::cover!(true);
}
#[kani::proof]
#[kani::unwind(258)]
#[kani::stub(alloc::fmt::format, crate::util::format_stub)]
fn c17_pair_255_256_prefix_only() {
    let a = NodeLabel::new(kani::any(), 255);
    let b = NodeLabel::new(kani::any(), 256);
    let got = a.is_prefix_of(&b);
    let want = first_bits_equal(&a.label_val, &b.label_val, 255);
    assert!(got == want);
    kani::cover!(got);
}
