//! C19, vector level: the conversions that collect repeated fields of the append-only proofs —
//! `SingleAppendOnlyProof` (0-3 inserted / unchanged nodes), `AppendOnlyProof` (0-1 inner proofs and
//! epochs) — keep every element, in order. Element conversions themselves are decided in `c19`.
//! Not built (CBMC does not finish within 20-40 minutes): two or more inner proofs, a malformed
//! element inside a vector (the `?` inside the collecting loop), and the vectors of `HistoryProof`.
#![cfg(kani)]
use crate::util::bytes_eq;
use akd_core::proto::specs::types as pb;
use akd_core::{AppendOnlyProof, AzksElement, AzksValue, NodeLabel, SingleAppendOnlyProof};
use core::convert::TryFrom;
use protobuf::MessageField;

fn same_label(a: &NodeLabel, b: &NodeLabel) -> bool {
    a.label_len == b.label_len && bytes_eq(&a.label_val, &b.label_val)
}
fn same_elem(a: &AzksElement, b: &AzksElement) -> bool {
    same_label(&a.label, &b.label) && bytes_eq(&a.value.0, &b.value.0)
}
/// elements that differ in one symbolic byte each (enough to see order and identity)
fn elem(tag: u8) -> AzksElement {
    let mut v = [0u8; 32];
    v[0] = tag;
    v[1] = kani::any();
    let len: u32 = kani::any();
    kani::assume(len >= 16 && len <= 256);
    AzksElement { label: NodeLabel::new(v, len), value: AzksValue(kani::any()) }
}
fn elems(n: usize, base: u8) -> Vec<AzksElement> {
    match n {
        0 => Vec::with_capacity(1),
        1 => vec![elem(base)],
        2 => vec![elem(base), elem(base + 1)],
        _ => vec![elem(base), elem(base + 1), elem(base + 2)],
    }
}
fn same_elems(a: &Vec<AzksElement>, b: &Vec<AzksElement>, n: usize) -> bool {
    if a.len() != n || b.len() != n {
        return false;
    }
    let mut ok = true;
    let mut i = 0;
    while i < n {
        ok &= same_elem(&a[i], &b[i]);
        i += 1;
    }
    ok
}

/// SingleAppendOnlyProof: round trip keeps both vectors; `bad`: element `bad-1` of `inserted`
/// loses its label in the message => rejected
fn single(n_ins: usize, n_unch: usize, bad: usize) {
    let x = SingleAppendOnlyProof { inserted: elems(n_ins, 10), unchanged_nodes: elems(n_unch, 20) };
    let mut m: pb::SingleAppendOnlyProof = (&x).into();
    assert!(m.inserted.len() == n_ins && m.unchanged_nodes.len() == n_unch, "append-only message has a different number of nodes");
    if bad > 0 {
        m.inserted[bad - 1].label = MessageField::none();
    }
    let y = SingleAppendOnlyProof::try_from(&m);
    match &y {
        Ok(p) => {
            assert!(bad == 0, "append-only proof message with a malformed node accepted");
            assert!(same_elems(&p.inserted, &x.inserted, n_ins), "inserted nodes changed by the protobuf round trip");
            assert!(same_elems(&p.unchanged_nodes, &x.unchanged_nodes, n_unch), "unchanged nodes changed by the protobuf round trip");
        }
        Err(_) => assert!(bad != 0, "append-only proof rejected after encoding"),
    }
    kani::cover!(y.is_ok() == (bad == 0));
    core::mem::forget((x, m, y));
}
macro_rules! single_h {
    ($name:ident, $a:expr, $b:expr, $bad:expr) => {
        #[kani::proof]
        #[kani::unwind(36)]
        #[kani::stub(alloc::fmt::format, crate::util::format_stub)]
        fn $name() {
            single($a, $b, $bad);
        }
    };
}
single_h!(c19v_single_0_0, 0, 0, 0);
single_h!(c19v_single_1_0, 1, 0, 0);
single_h!(c19v_single_0_1, 0, 1, 0);
single_h!(c19v_single_2_1, 2, 1, 0);
single_h!(c19v_single_1_2, 1, 2, 0);
single_h!(c19v_single_3_3, 3, 3, 0);

/// AppendOnlyProof: n single proofs (1 inserted node each, the i-th with i unchanged nodes) and
/// `ne` epochs; `bad`: single proof `bad-1` contains a malformed node => rejected
fn append_only(n: usize, ne: usize, bad: usize) {
    let mk = |i: usize| SingleAppendOnlyProof { inserted: elems(1, 10 + 4 * i as u8), unchanged_nodes: elems(i.min(1), 30 + 4 * i as u8) };
    let proofs = match n {
        0 => Vec::with_capacity(1),
        1 => vec![mk(0)],
        _ => vec![mk(0), mk(1)],
    };
    let epochs: Vec<u64> = match ne {
        0 => Vec::with_capacity(1),
        1 => vec![kani::any()],
        _ => vec![kani::any(), kani::any()],
    };
    let x = AppendOnlyProof { proofs, epochs };
    let mut m: pb::AppendOnlyProof = (&x).into();
    assert!(m.proofs.len() == n && m.epochs.len() == ne, "append-only message has a different number of proofs or epochs");
    if bad > 0 {
        m.proofs[bad - 1].inserted[0].value = None;
    }
    let y = AppendOnlyProof::try_from(&m);
    match &y {
        Ok(p) => {
            assert!(bad == 0, "append-only proof message with a malformed inner proof accepted");
            assert!(p.proofs.len() == n && p.epochs.len() == ne, "number of proofs / epochs changed by the protobuf round trip");
            let mut i = 0;
            while i < n {
                assert!(same_elems(&p.proofs[i].inserted, &x.proofs[i].inserted, 1), "inner append-only proof changed or reordered");
                assert!(same_elems(&p.proofs[i].unchanged_nodes, &x.proofs[i].unchanged_nodes, i.min(1)), "inner append-only proof changed or reordered");
                i += 1;
            }
            let mut j = 0;
            while j < ne {
                assert!(p.epochs[j] == x.epochs[j], "epochs changed or reordered by the protobuf round trip");
                j += 1;
            }
        }
        Err(_) => assert!(bad != 0, "append-only proof rejected after encoding"),
    }
    kani::cover!(y.is_ok() == (bad == 0));
    core::mem::forget((x, m, y));
}
macro_rules! ao_h {
    ($name:ident, $n:expr, $ne:expr, $bad:expr) => {
        #[kani::proof]
        #[kani::unwind(36)]
        #[kani::stub(alloc::fmt::format, crate::util::format_stub)]
        fn $name() {
            append_only($n, $ne, $bad);
        }
    };
}
ao_h!(c19v_append_only_0_0, 0, 0, 0);
ao_h!(c19v_append_only_1_1, 1, 1, 0);

include!("playback_c19v.rs");
