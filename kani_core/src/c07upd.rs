//! C07, update layer: akd_core::verify::history::verify_single_update_proof (through the
//! facebook_akd_verif hook) with the real base.rs helpers, the ideal hash / VRF and the membership
//! oracle. For ONE update proof with every field symbolic: accepted => the reported
//! (version, epoch, value) is the honest entry of that version -- value exact, or a tombstone only
//! when the verifier opted in; for version > 1 the previous version's stale leaf must exist and be
//! stamped with the same epoch (so a missing or post-dated stale marker makes it fail).
#![cfg(kani)]
use crate::c07l2::{any_label, any_leaf_hash, honest_state};
use crate::dirmodel::{self, NMAX};
use crate::model::{dg, vrf_label, ModelEXP, ModelWA};
use akd_core::verify::history::verif_hooks::verify_single_update_proof;
use akd_core::verify::history::HistoryParams;
use akd_core::verify::HistoryVerificationParams;
use akd_core::{AkdLabel, AkdValue, AzksValue, Configuration, UpdateProof};

/// `tomb`: the presented value is the empty tombstone; `has_prev`: the previous-version proof is
/// present; `known_v1`: also assert the epoch of a tombstoned version 1 (known finding F-C07)
fn update_sound<TC: Configuration>(tomb: bool, has_prev: bool, pmode: u8, known_v1: bool) {
    let (n, val, ep) = honest_state::<TC>(pmode, 7, false);
    let h = unsafe { dirmodel::H };
    let allow: bool = kani::any();
    let hp = HistoryParams::Complete;
    let vp = if allow { HistoryVerificationParams::AllowMissingValues { history_params: hp } } else { HistoryVerificationParams::Default { history_params: hp } };
    let version: u64 = kani::any();
    let proof = UpdateProof {
        epoch: kani::any(),
        value: AkdValue(if tomb { Vec::new() } else { vec![kani::any()] }),
        version,
        existence_vrf_proof: Vec::new(),
        existence_proof: dirmodel::membership_proof::<TC>(any_label(), any_leaf_hash()),
        previous_version_vrf_proof: if has_prev { Some(Vec::new()) } else { None },
        previous_version_proof: if has_prev { Some(dirmodel::membership_proof::<TC>(any_label(), any_leaf_hash())) } else { None },
        commitment_nonce: vec![kani::any()],
    };
    let r = verify_single_update_proof::<TC>(dirmodel::root_hash::<TC>(), &[], proof, &AkdLabel(Vec::new()), vp);
    if let Ok(res) = &r {
        assert!(res.version == version);
        assert!(version >= 1 && version <= n, "update proof accepted for a version the label never had");
        let i = (version - 1) as usize;
        if tomb {
            assert!(allow, "tombstoned value accepted although the verifier did not opt in");
            assert!(res.value.0.len() == 0);
        } else {
            assert!(res.value.0.len() == 1 && res.value.0[0] == val[i], "update proof accepted with a wrong value");
        }
        if !(tomb && version == 1 && !known_v1) {
            assert!(res.epoch == ep[i], "update proof accepted with a wrong epoch (tombstoned version 1: known finding F-C07)");
        }
        if version > 1 {
            assert!(has_prev, "update proof for a version > 1 accepted without the proof that the previous version was retired");
            // the stale marker of version-1 exists and is stamped with this update's epoch
            assert!(!(h.pmode == 1 && h.pv == version - 1), "accepted although the previous version's stale marker is missing from the tree");
            assert!(h.stale_ep[i - 1] == ep[i], "accepted although the previous version was retired in another epoch than this update");
        }
    }
    kani::cover!(r.is_err());
    kani::cover!(r.is_ok() || (!has_prev && false));
    kani::cover!((r.is_ok() && version > 1) || !has_prev);
    core::mem::forget(r);
}

/// Completeness: the honest update proof of every version verifies (value present or tombstoned
/// with opt-in).
fn update_complete<TC: Configuration>(tomb: bool) {
    let (n, val, ep) = honest_state::<TC>(0, 7, false);
    let h = unsafe { dirmodel::H };
    let version: u64 = kani::any();
    kani::assume(version >= 1 && version <= n);
    let i = (version - 1) as usize;
    let hp = HistoryParams::Complete;
    let vp = if tomb { HistoryVerificationParams::AllowMissingValues { history_params: hp } } else { HistoryVerificationParams::Default { history_params: hp } };
    // case split on "has a previous version" so that the Option fields are concrete in each case
    let chosen: bool = kani::any();
    let mut c = 0;
    while c < 2 {
        let with_prev = c == 1;
        if chosen == with_prev && (version > 1) == with_prev {
            let pi = if with_prev { i - 1 } else { 0 };
            let pv = if with_prev { version - 1 } else { 1 };
            let proof = UpdateProof {
                epoch: ep[i],
                value: AkdValue(if tomb { Vec::new() } else { vec![val[i]] }),
                version,
                existence_vrf_proof: Vec::new(),
                existence_proof: dirmodel::membership_proof::<TC>(vrf_label(true, version), AzksValue(dg(h.fresh_hash[i]))),
                previous_version_vrf_proof: if with_prev { Some(Vec::new()) } else { None },
                previous_version_proof: if with_prev { Some(dirmodel::membership_proof::<TC>(vrf_label(false, pv), AzksValue(dg(h.stale_hash[pi])))) } else { None },
                commitment_nonce: vec![h.nonce[i]],
            };
            let r = verify_single_update_proof::<TC>(dirmodel::root_hash::<TC>(), &[], proof, &AkdLabel(Vec::new()), vp);
            let ok = match &r {
                Ok(res) => res.version == version && res.epoch == ep[i],
                Err(_) => false,
            };
            assert!(ok, "honest update proof rejected or misreported");
            kani::cover!(ok && with_prev);
            kani::cover!(ok && !with_prev);
            core::mem::forget(r);
        }
        c += 1;
    }
}

macro_rules! upd {
    ($name:ident, $f:ident, $tc:ty $(, $a:expr)*) => {
        #[kani::proof]
        #[kani::unwind(9)]
        #[kani::stub(alloc::fmt::format, crate::util::format_stub)]
        #[kani::stub(akd_core::verify::base::verify_membership, crate::dirmodel::vm_oracle)]
        #[kani::stub(akd_core::verify::base::verify_nonmembership, crate::dirmodel::vnm_oracle)]
        fn $name() {
            $f::<$tc>($($a),*);
        }
    };
}
upd!(c07_upd_sound_wa_val_prev, update_sound, ModelWA, false, true, 0, false);
upd!(c07_upd_sound_wa_val_noprev, update_sound, ModelWA, false, false, 0, false);
upd!(c07_upd_sound_wa_tomb_prev, update_sound, ModelWA, true, true, 0, false);
upd!(c07_upd_sound_wa_tomb_noprev, update_sound, ModelWA, true, false, 0, false);
upd!(c07_upd_sound_exp_val_prev, update_sound, ModelEXP, false, true, 0, false);
upd!(c07_upd_sound_exp_tomb_prev, update_sound, ModelEXP, true, true, 0, false);
upd!(c07_upd_sound_exp_tomb_noprev, update_sound, ModelEXP, true, false, 0, false);
upd!(c07_upd_latestale_wa_missing, update_sound, ModelWA, false, true, 1, false);
upd!(c07_upd_latestale_wa_late, update_sound, ModelWA, false, true, 2, false);
upd!(c07_upd_latestale_exp_late, update_sound, ModelEXP, false, true, 2, false);
upd!(c07_upd_known_v1_tombstone_epoch_wa, update_sound, ModelWA, true, false, 0, true);
upd!(c07_upd_known_v1_tombstone_epoch_exp, update_sound, ModelEXP, true, false, 0, true);
upd!(c07_upd_complete_wa, update_complete, ModelWA, false);
upd!(c07_upd_complete_wa_tomb, update_complete, ModelWA, true);
upd!(c07_upd_complete_exp, update_complete, ModelEXP, false);

include!("playback_c07upd.rs");
