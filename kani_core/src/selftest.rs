//! Machinery self-test: a harness that must FAIL (wrong claim about the real get_prefix) and
//! whose counterexample must replay natively. Never registered as a property check.
#![cfg(kani)]
use akd_core::NodeLabel;

#[kani::proof]
fn selftest_must_fail() {
    let val: [u8; 32] = kani::any();
    let l = NodeLabel::new(val, 16);
    let p = l.get_prefix(9);
    // wrong on purpose: byte 1 keeps only its top bit
    assert!(p.label_val[1] == l.label_val[1]);
}

include!("playback_selftest.rs");
