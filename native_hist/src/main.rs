//! Native confirmation for the history-glue obligation (C07.glue, Engine M): a battery run against
//! the REAL server, VRF, hash configuration and verifier of /repo. It builds a directory in which
//! one label has several versions, asks the real server for history proofs whose shapes cover
//! k = 1..=4 update proofs with past and future markers present, and checks
//!   H  the honest proof verifies and the results are the true versions, newest first
//!   T  a proof in which ONE component is replaced by another valid-looking component (an update
//!      proof's tree proof / VRF proof, a past marker's tree proof / VRF proof, a future marker's
//!      tree proof / VRF proof) is rejected
//!   A/D a tombstoned oldest entry is accepted with AllowMissingValues and rejected without
//!   E  a proof whose tombstoned version 1 carries an epoch larger than version 2's is rejected
//!      (the only place where the epoch-order check is not implied by the per-update checks)
//! Prints one line per failed test ("FAIL <what>") and exits 1 if any failed, 0 otherwise.
use akd::append_only_zks::AzksParallelismConfig;
use akd::client::key_history_verify;
use akd::directory::Directory;
use akd::ecvrf::HardCodedAkdVRF;
use akd::storage::memory::AsyncInMemoryDatabase;
use akd::storage::StorageManager;
use akd::{AkdLabel, AkdValue, EpochHash, HistoryParams, HistoryProof, HistoryVerificationParams};

type TC = akd::WhatsAppV1Configuration;

fn main() {
    let rt = tokio::runtime::Builder::new_current_thread().build().unwrap();
    let fails = rt.block_on(run());
    for f in &fails {
        println!("FAIL {f}");
    }
    println!("native_hist: {} failed", fails.len());
    std::process::exit(if fails.is_empty() { 0 } else { 1 });
}

async fn run() -> Vec<String> {
    let mut fails = Vec::new();
    let db = AsyncInMemoryDatabase::new();
    let storage = StorageManager::new_no_cache(db);
    let akd = Directory::<TC, _, _>::new(storage, HardCodedAkdVRF {}, AzksParallelismConfig::default()).await.unwrap();
    let alice = AkdLabel::from("alice");
    // epochs 1..=40: alice gets a new version in every epoch that is not a multiple of 5
    // (versions 1..=32), other labels fill the tree
    let mut truth: Vec<(u64, u64, Vec<u8>)> = Vec::new(); // (version, epoch, value)
    let mut version = 0u64;
    for epoch in 1..=40u64 {
        let mut batch = vec![(AkdLabel::from(format!("other{epoch}").as_str()), AkdValue::from(format!("v{epoch}").as_str()))];
        if epoch % 5 != 0 {
            version += 1;
            let val = format!("alice-{version}");
            batch.push((alice.clone(), AkdValue::from(val.as_str())));
            truth.push((version, epoch, val.into_bytes()));
        }
        akd.publish(batch).await.unwrap();
    }
    let EpochHash(current_epoch, root_hash) = akd.get_epoch_hash().await.unwrap();
    let pk = akd.get_public_key().await.unwrap();
    let n = truth.len();

    // a panic inside the verifier is reported as an error value "PANIC" (and as a failure by H)
    let verify = |proof: HistoryProof, vp: HistoryVerificationParams| -> Result<Vec<akd::VerifyResult>, String> {
        let label = alice.clone();
        let pkb = pk.as_bytes().to_vec();
        match std::panic::catch_unwind(std::panic::AssertUnwindSafe(move || key_history_verify::<TC>(&pkb, root_hash, current_epoch, label, proof, vp))) {
            Ok(r) => r.map_err(|e| format!("{e:?}")),
            Err(_) => Err("PANIC inside key_history_verify".to_string()),
        }
    };

    let mut seen_past = 0usize;
    let mut seen_future = 0usize;
    let mut params = vec![HistoryParams::Complete];
    for r in 1..=n {
        params.push(HistoryParams::MostRecent(r));
    }
    for hp in params {
        let (proof, _) = akd.key_history(&alice, hp).await.unwrap();
        let vp = HistoryVerificationParams::Default { history_params: hp };
        let k = proof.update_proofs.len();
        seen_past = seen_past.max(proof.past_marker_vrf_proofs.len());
        seen_future = seen_future.max(proof.future_marker_vrf_proofs.len());
        let tag = format!("{hp:?} (k={k}, p={}, f={})", proof.past_marker_vrf_proofs.len(), proof.future_marker_vrf_proofs.len());
        // H
        match verify(proof.clone(), vp) {
            Ok(res) => {
                let want: Vec<_> = truth.iter().rev().take(k).collect();
                if res.len() != k || res.iter().zip(want.iter()).any(|(r, w)| r.version != w.0 || r.epoch != w.1 || r.value.0 != w.2) {
                    fails.push(format!("H {tag}: honest proof verifies to {:?}, expected {:?}", res.iter().map(|r| (r.version, r.epoch)).collect::<Vec<_>>(), want.iter().map(|w| (w.0, w.1)).collect::<Vec<_>>()));
                }
            }
            Err(e) => fails.push(format!("H {tag}: honest proof rejected: {e:?}")),
        }
        // A / D: a tombstoned oldest entry is accepted exactly when the verifier opted in
        {
            let mut p = proof.clone();
            p.update_proofs[k - 1].value = AkdValue(akd::TOMBSTONE.to_vec());
            let r = verify(p.clone(), HistoryVerificationParams::AllowMissingValues { history_params: hp });
            match r {
                Ok(res) => {
                    if res.len() != k || !res[k - 1].value.0.is_empty() {
                        fails.push(format!("A {tag}: tombstoned entry accepted with opt-in but reported with a value"));
                    }
                }
                Err(e) => fails.push(format!("A {tag}: tombstoned oldest entry rejected although the verifier allows missing values: {e}")),
            }
            if verify(p, vp).is_ok() {
                fails.push(format!("D {tag}: tombstoned oldest entry accepted although the verifier did not opt in"));
            }
        }
        // T: update proofs
        for j in 0..k {
            let donor = (j + 1) % k.max(1);
            if k > 1 {
                let mut p = proof.clone();
                p.update_proofs[j].existence_proof = proof.update_proofs[donor].existence_proof.clone();
                if verify(p, vp).is_ok() {
                    fails.push(format!("T {tag}: accepted with update proof {j} carrying the tree proof of update proof {donor}"));
                }
                let mut p = proof.clone();
                p.update_proofs[j].existence_vrf_proof = proof.update_proofs[donor].existence_vrf_proof.clone();
                if verify(p, vp).is_ok() {
                    fails.push(format!("T {tag}: accepted with update proof {j} carrying the VRF proof of update proof {donor}"));
                }
            }
            let mut p = proof.clone();
            p.update_proofs[j].existence_proof.hash_val.0[0] ^= 1;
            if verify(p, vp).is_ok() {
                fails.push(format!("T {tag}: accepted with a corrupted leaf hash in update proof {j}"));
            }
            let mut p = proof.clone();
            p.update_proofs[j].value = AkdValue::from("forged");
            if verify(p, vp).is_ok() {
                fails.push(format!("T {tag}: accepted with a forged value in update proof {j}"));
            }
        }
        // T: past markers
        for i in 0..proof.past_marker_vrf_proofs.len() {
            let mut p = proof.clone();
            p.existence_of_past_marker_proofs[i] = proof.update_proofs[0].existence_proof.clone();
            if verify(p, vp).is_ok() {
                fails.push(format!("T {tag}: accepted with past marker {i} carrying another leaf's tree proof"));
            }
            let mut p = proof.clone();
            p.past_marker_vrf_proofs[i] = proof.update_proofs[0].existence_vrf_proof.clone();
            if verify(p, vp).is_ok() {
                fails.push(format!("T {tag}: accepted with past marker {i} carrying another leaf's VRF proof"));
            }
            let mut p = proof.clone();
            p.existence_of_past_marker_proofs[i].hash_val.0[0] ^= 1;
            if verify(p, vp).is_ok() {
                fails.push(format!("T {tag}: accepted with a corrupted past marker {i}"));
            }
        }
        // T: future markers
        for i in 0..proof.future_marker_vrf_proofs.len() {
            let mut p = proof.clone();
            p.future_marker_vrf_proofs[i] = proof.update_proofs[0].existence_vrf_proof.clone();
            if verify(p, vp).is_ok() {
                fails.push(format!("T {tag}: accepted with future marker {i} carrying another leaf's VRF proof"));
            }
            let mut p = proof.clone();
            let donor = (i + 1) % proof.future_marker_vrf_proofs.len();
            if donor != i {
                p.non_existence_of_future_marker_proofs[i] = proof.non_existence_of_future_marker_proofs[donor].clone();
                p.non_existence_of_future_marker_proofs[i].longest_prefix_children[0].value.0[0] ^= 1;
            } else {
                p.non_existence_of_future_marker_proofs[i].longest_prefix_children[0].value.0[0] ^= 1;
            }
            if verify(p, vp).is_ok() {
                fails.push(format!("T {tag}: accepted with a corrupted non-membership proof for future marker {i}"));
            }
        }
    }
    println!("native_hist: shapes covered up to p={seen_past} past and f={seen_future} future markers, k up to {n}");
    if seen_past == 0 || seen_future == 0 {
        fails.push(format!("setup: the battery never saw past ({seen_past}) or future ({seen_future}) markers"));
    }
    // E: epoch order (tombstoned version 1 with a post-dated epoch; see known finding F-C07)
    {
        let hp = HistoryParams::Complete;
        let (proof, _) = akd.key_history(&alice, hp).await.unwrap();
        let vp = HistoryVerificationParams::AllowMissingValues { history_params: hp };
        let k = proof.update_proofs.len();
        let mut p = proof.clone();
        p.update_proofs[k - 1].value = AkdValue(akd::TOMBSTONE.to_vec());
        p.update_proofs[k - 1].epoch = proof.update_proofs[k - 2].epoch + 1;
        if verify(p, vp).is_ok() {
            fails.push("E Complete: accepted although the (tombstoned) oldest update carries a larger epoch than the update after it".to_string());
        }
    }
    fails
}
