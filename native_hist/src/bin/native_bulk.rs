//! Native confirmation for the bulk-versions obligation (C15.bulk_versions, Engine M) against the
//! REAL `StorageManager::get_user_state_versions` of /repo over the real in-memory database:
//! for every small well-formed history of one user (committed states, pending states of an open
//! transaction, possibly rewriting a committed (user, epoch) record with the same version) and every
//! retrieval flag, the answer inside the transaction must equal the answer after commit; an absent
//! user is an empty answer. A second user with committed data only is queried alongside.
//! Prints "FAIL <what>" lines; exit 1 if any, 0 otherwise.
use akd::storage::memory::AsyncInMemoryDatabase;
use akd::storage::types::{DbRecord, ValueState, ValueStateRetrievalFlag};
use akd::storage::StorageManager;
use akd::{AkdLabel, AkdValue, NodeLabel};
use std::time::Duration;

fn vs(user: &str, epoch: u64, version: u64, tag: u8) -> DbRecord {
    DbRecord::ValueState(ValueState {
        value: AkdValue(vec![tag, epoch as u8, version as u8]),
        version,
        label: NodeLabel { label_val: [version as u8; 32], label_len: 256 },
        epoch,
        username: AkdLabel::from(user),
    })
}

fn flags() -> Vec<ValueStateRetrievalFlag> {
    let mut f = vec![ValueStateRetrievalFlag::MinEpoch, ValueStateRetrievalFlag::MaxEpoch];
    for x in 0..=7u64 {
        f.push(ValueStateRetrievalFlag::LeqEpoch(x));
        f.push(ValueStateRetrievalFlag::SpecificEpoch(x));
        f.push(ValueStateRetrievalFlag::SpecificVersion(x));
    }
    f
}

async fn one(committed: &[(u64, u64)], pending: &[(u64, u64)], cached: bool, fails: &mut Vec<String>) {
    let users = [AkdLabel::from("u"), AkdLabel::from("w"), AkdLabel::from("absent")];
    for flag in flags() {
        let db = AsyncInMemoryDatabase::new();
        let m = if cached {
            StorageManager::new(db, Some(Duration::from_secs(600)), None, None)
        } else {
            StorageManager::new_no_cache(db)
        };
        for (e, v) in committed {
            m.set(vs("u", *e, *v, 0xC0)).await.unwrap();
        }
        m.set(vs("w", 2, 1, 0xC0)).await.unwrap();
        assert!(m.begin_transaction());
        for (e, v) in pending {
            m.set(vs("u", *e, *v, 0x70)).await.unwrap();
        }
        // a commit must end with the directory's epoch record
        m.set(DbRecord::Azks(DbRecord::build_azks(9, 7))).await.unwrap();
        let inside = m.get_user_state_versions(&users, flag).await;
        let mut single_in = Vec::new();
        for u in users.iter() {
            single_in.push(m.get_user_state(u, flag).await.ok());
        }
        m.commit_transaction().await.unwrap();
        let after = m.get_user_state_versions(&users, flag).await;
        for (i, u) in users.iter().enumerate() {
            let b = m.get_user_state(u, flag).await.ok();
            if single_in[i] != b {
                fails.push(format!(
                    "get_user_state({:?}) for a user with committed (epoch, version) {:?} and pending {:?}{}: inside the transaction {:?}, after commit {:?}",
                    flag,
                    committed,
                    pending,
                    if cached { " (cache on)" } else { "" },
                    single_in[i].as_ref().map(|s| (s.epoch, s.version, s.value.0.clone())),
                    b.as_ref().map(|s| (s.epoch, s.version, s.value.0.clone()))
                ));
            }
        }
        match (inside, after) {
            (Ok(a), Ok(b)) => {
                for u in users.iter() {
                    if a.get(u) != b.get(u) {
                        fails.push(format!(
                            "get_user_state_versions({:?}) for a user with committed (epoch, version) {:?} and pending {:?}{}: inside the transaction {:?}, after commit {:?}",
                            flag,
                            committed,
                            pending,
                            if cached { " (cache on)" } else { "" },
                            a.get(u).map(|(v, x)| (*v, x.0.clone())),
                            b.get(u).map(|(v, x)| (*v, x.0.clone()))
                        ));
                    }
                }
            }
            (a, b) => {
                if a.is_ok() != b.is_ok() {
                    fails.push(format!("get_user_state_versions({:?}): Ok/Err differs inside the transaction and after commit", flag));
                }
            }
        }
    }
}

#[tokio::main(flavor = "current_thread")]
async fn main() {
    let mut fails: Vec<String> = Vec::new();
    // (epoch, version) lists: versions strictly increase with epochs; epochs and versions need not coincide
    let committed_sets: Vec<Vec<(u64, u64)>> = vec![vec![], vec![(2, 1)], vec![(3, 1)], vec![(2, 1), (4, 2)], vec![(1, 1), (3, 2), (5, 3)], vec![(4, 1), (5, 2)]];
    for c in committed_sets.iter() {
        let last_e = c.last().map(|x| x.0).unwrap_or(0);
        let last_v = c.last().map(|x| x.1).unwrap_or(0);
        let mut pend: Vec<Vec<(u64, u64)>> = vec![vec![], vec![(last_e + 1, last_v + 1)], vec![(last_e + 2, last_v + 1)], vec![(last_e + 1, last_v + 1), (last_e + 2, last_v + 2)]];
        // rewriting existing (user, epoch) records keeps their version (as tombstoning does)
        for (e, v) in c.iter() {
            pend.push(vec![(*e, *v)]);
            pend.push(vec![(*e, *v), (last_e + 2, last_v + 1)]);
        }
        for p in pend.iter() {
            for cached in [false, true] {
                one(c, p, cached, &mut fails).await;
            }
        }
    }
    fails.sort();
    fails.dedup();
    for f in fails.iter().take(40) {
        println!("FAIL {}", f);
    }
    println!("native_bulk: {} failures", fails.len());
    std::process::exit(if fails.is_empty() { 0 } else { 1 });
}
