//! Native confirmation for the transaction-log obligation (C15.txn, Engine M) against the REAL
//! `akd::storage::transaction::Transaction` of /repo: open / commit / rollback on logs holding
//! the epoch record together with value states, inserted in several orders.
//! Prints "FAIL <what>" lines; exit 1 if any, 0 otherwise.
use akd::storage::transaction::Transaction;
use akd::storage::types::{DbRecord, ValueState};
use akd::{AkdLabel, AkdValue, NodeLabel};

fn vs(user: &str, epoch: u64) -> DbRecord {
    DbRecord::ValueState(ValueState { value: AkdValue(vec![epoch as u8]), version: epoch, label: NodeLabel { label_val: [epoch as u8; 32], label_len: 256 }, epoch, username: AkdLabel::from(user) })
}
fn azks(epoch: u64) -> DbRecord {
    DbRecord::Azks(DbRecord::build_azks(epoch, 7))
}
fn is_azks(r: &DbRecord) -> bool {
    matches!(r, DbRecord::Azks(_))
}

fn main() {
    let mut fails: Vec<String> = Vec::new();
    // refused operations on a closed log
    let t = Transaction::new();
    if t.commit_transaction().is_ok() {
        fails.push("commit without an open transaction returned Ok".into());
    }
    if t.rollback_transaction().is_ok() {
        fails.push("rollback without an open transaction returned Ok".into());
    }
    if t.is_transaction_active() {
        fails.push("a refused commit / rollback opened a transaction".into());
    }
    // begin
    if !t.begin_transaction() {
        fails.push("begin_transaction on a closed log returned false".into());
    }
    if !t.is_transaction_active() {
        fails.push("no transaction open after begin_transaction".into());
    }
    if t.begin_transaction() {
        fails.push("begin_transaction returned true although a transaction is open".into());
    }
    if !t.is_transaction_active() {
        fails.push("a refused begin closed the open transaction".into());
    }
    // a refused begin leaves the open transaction's pending writes alone
    t.batch_set(&[vs("a", 1), azks(1), vs("b", 1)]);
    let _ = t.begin_transaction();
    if t.count() != 3 {
        fails.push(format!("a refused begin_transaction changed the pending writes of the open transaction ({} of 3 left)", t.count()));
        t.batch_set(&[vs("a", 1), azks(1), vs("b", 1)]);
    }
    // rollback discards everything
    if t.rollback_transaction().is_err() {
        fails.push("rollback of an open transaction returned Err".into());
    }
    if t.count() != 0 {
        fails.push(format!("rollback kept {} pending records", t.count()));
    }
    if t.is_transaction_active() {
        fails.push("transaction still open after rollback".into());
    }
    // rollback of a transaction that has not written anything still closes it
    {
        let t = Transaction::new();
        t.begin_transaction();
        if t.rollback_transaction().is_err() {
            fails.push("rollback of an open transaction with an empty log returned Err".into());
        }
        if t.is_transaction_active() {
            fails.push("a transaction with an empty log is still open after rollback".into());
        }
        let t = Transaction::new();
        t.begin_transaction();
        let _ = t.commit_transaction();
        if t.is_transaction_active() {
            fails.push("a transaction with an empty log is still open after commit".into());
        }
    }
    // commit: every pending record exactly once, epoch record last, log emptied; several orders / sizes
    for n in [0usize, 1, 2, 5, 40] {
        for azks_pos in [0usize, n / 2, n] {
            let t = Transaction::new();
            t.begin_transaction();
            let mut k = 0;
            for i in 0..=n {
                if i == azks_pos {
                    t.set(&azks(9));
                }
                if i < n {
                    t.set(&vs(&format!("user{i}"), 9));
                    k += 1;
                }
            }
            match t.commit_transaction() {
                Err(e) => fails.push(format!("commit of an open transaction with {k}+1 records returned Err: {e:?}")),
                Ok(recs) => {
                    if recs.len() != k + 1 {
                        fails.push(format!("commit returned {} records, {} were pending", recs.len(), k + 1));
                    }
                    if recs.iter().filter(|r| is_azks(r)).count() != 1 {
                        fails.push("commit did not return the epoch record exactly once".into());
                    }
                    if !recs.last().map(is_azks).unwrap_or(false) {
                        fails.push(format!("commit does not hand out the epoch record last ({} value states, epoch record inserted at position {azks_pos})", k));
                    }
                    for i in 0..n {
                        let want = format!("user{i}");
                        if recs.iter().filter(|r| matches!(r, DbRecord::ValueState(v) if v.username == AkdLabel::from(want.as_str()))).count() != 1 {
                            fails.push(format!("commit lost or duplicated the pending record of {want}"));
                            break;
                        }
                    }
                }
            }
            if t.count() != 0 {
                fails.push(format!("{} records still pending after commit", t.count()));
            }
            if t.is_transaction_active() {
                fails.push("transaction still open after commit".into());
            }
        }
    }
    fails.dedup();
    for f in &fails {
        println!("FAIL {f}");
    }
    println!("native_txn: {} failed", fails.len());
    std::process::exit(if fails.is_empty() { 0 } else { 1 });
}
