//! Native confirmation for C10 ("a publish that returns an error leaves the directory exactly as it
//! was") at the commit step: the database refuses the commit write as a whole, on a directory WITH
//! and WITHOUT object cache. After the failed publish the same instance must report the previous
//! epoch hash, serve a verifying lookup of the previous value, have no transaction open, and a
//! later publish of the same batch must end in the state of a directory that never saw the failure.
//! The same is checked with the k-th storage READ of the publish failing, for every k.
//! Prints "FAIL <what>" lines; exit 1 if any, 0 otherwise.
use akd::append_only_zks::AzksParallelismConfig;
use akd::client::lookup_verify;
use akd::directory::Directory;
use akd::ecvrf::HardCodedAkdVRF;
use akd::errors::StorageError;
use akd::storage::memory::AsyncInMemoryDatabase;
use akd::storage::types::{DbRecord, KeyData, ValueState, ValueStateRetrievalFlag};
use akd::storage::{Database, DbSetState, Storable, StorageManager};
use akd::{AkdLabel, AkdValue};
use async_trait::async_trait;
use std::collections::HashMap;
use std::sync::atomic::{AtomicBool, AtomicUsize, Ordering};
use std::sync::Arc;

type TC = akd::WhatsAppV1Configuration;

#[derive(Clone)]
struct FailDb {
    inner: AsyncInMemoryDatabase,
    fail_commit: Arc<AtomicBool>,
    /// fail the n-th read (get / batch_get / user-state query) from now on, 0 = never
    fail_read_at: Arc<AtomicUsize>,
    reads: Arc<AtomicUsize>,
}

impl FailDb {
    fn read(&self) -> Result<(), StorageError> {
        let n = self.reads.fetch_add(1, Ordering::SeqCst) + 1;
        if n == self.fail_read_at.load(Ordering::SeqCst) {
            return Err(StorageError::Connection("injected: read refused".to_string()));
        }
        Ok(())
    }
}

#[async_trait]
impl Database for FailDb {
    async fn set(&self, record: DbRecord) -> Result<(), StorageError> {
        self.inner.set(record).await
    }
    async fn batch_set(&self, records: Vec<DbRecord>, state: DbSetState) -> Result<(), StorageError> {
        if matches!(state, DbSetState::TransactionCommit) && self.fail_commit.load(Ordering::SeqCst) {
            return Err(StorageError::Connection("injected: commit write refused".to_string()));
        }
        self.inner.batch_set(records, state).await
    }
    async fn get<St: Storable>(&self, id: &St::StorageKey) -> Result<DbRecord, StorageError> {
        self.read()?;
        self.inner.get::<St>(id).await
    }
    async fn batch_get<St: Storable>(&self, ids: &[St::StorageKey]) -> Result<Vec<DbRecord>, StorageError> {
        self.read()?;
        self.inner.batch_get::<St>(ids).await
    }
    async fn get_user_data(&self, username: &AkdLabel) -> Result<KeyData, StorageError> {
        self.read()?;
        self.inner.get_user_data(username).await
    }
    async fn get_user_state(&self, username: &AkdLabel, flag: ValueStateRetrievalFlag) -> Result<ValueState, StorageError> {
        self.read()?;
        self.inner.get_user_state(username, flag).await
    }
    async fn get_user_state_versions(&self, usernames: &[AkdLabel], flag: ValueStateRetrievalFlag) -> Result<HashMap<AkdLabel, (u64, AkdValue)>, StorageError> {
        self.read()?;
        self.inner.get_user_state_versions(usernames, flag).await
    }
}

fn batch(n: u64) -> Vec<(AkdLabel, AkdValue)> {
    vec![(AkdLabel::from("alice"), AkdValue::from(format!("a{n}").as_str())), (AkdLabel::from(format!("o{n}").as_str()), AkdValue::from("x"))]
}

async fn scenario(with_cache: bool) -> Vec<String> {
    let tag = if with_cache { "with cache" } else { "without cache" };
    let mut fails = Vec::new();
    let db = FailDb { inner: AsyncInMemoryDatabase::new(), fail_commit: Arc::new(AtomicBool::new(false)), fail_read_at: Arc::new(AtomicUsize::new(0)), reads: Arc::new(AtomicUsize::new(0)) };
    let storage = if with_cache { StorageManager::new(db.clone(), None, None, None) } else { StorageManager::new_no_cache(db.clone()) };
    let akd = Directory::<TC, _, _>::new(storage.clone(), HardCodedAkdVRF {}, AzksParallelismConfig::default()).await.unwrap();
    akd.publish(batch(1)).await.unwrap();
    let before = akd.get_epoch_hash().await.unwrap();
    let pk = akd.get_public_key().await.unwrap();

    db.fail_commit.store(true, Ordering::SeqCst);
    let r = akd.publish(batch(2)).await;
    db.fail_commit.store(false, Ordering::SeqCst);
    if r.is_ok() {
        fails.push(format!("{tag}: publish returned Ok although the commit write was refused"));
    }
    if storage.is_transaction_active() {
        fails.push(format!("{tag}: a transaction is left open after the failed publish"));
    }
    match akd.get_epoch_hash().await {
        Ok(eh) if eh.0 == before.0 && eh.1 == before.1 => {}
        Ok(eh) => fails.push(format!("{tag}: after the failed publish the same instance reports epoch {} (root {:02x}{:02x}..) instead of the previous epoch {} (root {:02x}{:02x}..)", eh.0, eh.1[0], eh.1[1], before.0, before.1[0], before.1[1])),
        Err(e) => fails.push(format!("{tag}: get_epoch_hash fails after the failed publish: {e:?}")),
    }
    match akd.lookup(AkdLabel::from("alice")).await {
        Ok((proof, eh)) => match lookup_verify::<TC>(pk.as_bytes(), eh.1, eh.0, AkdLabel::from("alice"), proof) {
            Ok(res) if res.value.0 == b"a1".to_vec() && eh.0 == before.0 => {}
            Ok(res) => fails.push(format!("{tag}: after the failed publish a lookup serves value {:?} at epoch {} (previous state: \"a1\" at epoch {})", String::from_utf8_lossy(&res.value.0), eh.0, before.0)),
            Err(e) => fails.push(format!("{tag}: after the failed publish the lookup proof does not verify: {e:?}")),
        },
        Err(e) => fails.push(format!("{tag}: lookup fails after the failed publish: {e:?}")),
    }
    // a later publish succeeds and ends where a directory that never failed ends
    match akd.publish(batch(2)).await {
        Err(e) => fails.push(format!("{tag}: the publish after the failed one fails: {e:?}")),
        Ok(after) => {
            let cdb = AsyncInMemoryDatabase::new();
            let control = Directory::<TC, _, _>::new(StorageManager::new_no_cache(cdb), HardCodedAkdVRF {}, AzksParallelismConfig::default()).await.unwrap();
            control.publish(batch(1)).await.unwrap();
            let want = control.publish(batch(2)).await.unwrap();
            if after.0 != want.0 || after.1 != want.1 {
                fails.push(format!("{tag}: the publish after the failed one ends at epoch {} root {:02x}{:02x}.., a directory that never failed ends at epoch {} root {:02x}{:02x}..", after.0, after.1[0], after.1[1], want.0, want.1[0], want.1[1]));
            }
        }
    }
    fails
}

/// the k-th storage read of a publish fails, for every k the publish makes
async fn read_failures(with_cache: bool) -> Vec<String> {
    let tag = if with_cache { "with cache" } else { "without cache" };
    let mut fails = Vec::new();
    // how many reads does the publish make?
    let mut k = 1usize;
    loop {
        let db = FailDb { inner: AsyncInMemoryDatabase::new(), fail_commit: Arc::new(AtomicBool::new(false)), fail_read_at: Arc::new(AtomicUsize::new(0)), reads: Arc::new(AtomicUsize::new(0)) };
        let storage = if with_cache { StorageManager::new(db.clone(), None, None, None) } else { StorageManager::new_no_cache(db.clone()) };
        let akd = Directory::<TC, _, _>::new(storage.clone(), HardCodedAkdVRF {}, AzksParallelismConfig::default()).await.unwrap();
        akd.publish(batch(1)).await.unwrap();
        let before = akd.get_epoch_hash().await.unwrap();
        db.reads.store(0, Ordering::SeqCst);
        db.fail_read_at.store(k, Ordering::SeqCst);
        let r = akd.publish(batch(2)).await;
        let made = db.reads.load(Ordering::SeqCst);
        db.fail_read_at.store(0, Ordering::SeqCst);
        if made < k {
            break; // the publish makes fewer than k reads: all read positions explored
        }
        if r.is_ok() {
            // a read whose failure is tolerated (e.g. NotFound-equivalent handling) - then the publish simply succeeded
            k += 1;
            continue;
        }
        if storage.is_transaction_active() {
            fails.push(format!("{tag}: read {k} of the publish fails: a transaction is left open"));
        }
        match akd.get_epoch_hash().await {
            Ok(eh) if eh.0 == before.0 && eh.1 == before.1 => {}
            Ok(eh) => fails.push(format!("{tag}: read {k} of the publish fails: the same instance afterwards reports epoch {} instead of {}", eh.0, before.0)),
            Err(e) => fails.push(format!("{tag}: read {k} of the publish fails: get_epoch_hash fails afterwards: {e:?}")),
        }
        match akd.publish(batch(2)).await {
            Err(e) => fails.push(format!("{tag}: read {k} of the publish fails: the publish after the failed one fails: {e:?}")),
            Ok(after) => {
                let control = Directory::<TC, _, _>::new(StorageManager::new_no_cache(AsyncInMemoryDatabase::new()), HardCodedAkdVRF {}, AzksParallelismConfig::default()).await.unwrap();
                control.publish(batch(1)).await.unwrap();
                let want = control.publish(batch(2)).await.unwrap();
                if after.0 != want.0 || after.1 != want.1 {
                    fails.push(format!("{tag}: read {k} of the publish fails: the later publish ends at epoch {} root {:02x}{:02x}.., expected epoch {} root {:02x}{:02x}..", after.0, after.1[0], after.1[1], want.0, want.1[0], want.1[1]));
                }
            }
        }
        k += 1;
        if k > 400 {
            break;
        }
    }
    println!("native_commitfail: {tag}: {} read positions of a publish explored", k - 1);
    fails
}

fn main() {
    let rt = tokio::runtime::Builder::new_current_thread().enable_time().build().unwrap();
    let mut fails = rt.block_on(scenario(false));
    fails.extend(rt.block_on(scenario(true)));
    fails.extend(rt.block_on(read_failures(false)));
    fails.extend(rt.block_on(read_failures(true)));
    for f in &fails {
        println!("FAIL {f}");
    }
    println!("native_commitfail: {} failed", fails.len());
    std::process::exit(if fails.is_empty() { 0 } else { 1 });
}
