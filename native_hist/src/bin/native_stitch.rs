//! Native schedule search for C13 ("an answer is never stitched together from two epochs"):
//! a reader instance WITHOUT object cache serves a request while a writer instance publishes a new
//! epoch on the same database. The reader's database handle is wrapped so that its k-th read of
//! the epoch (Azks) record inside the request waits until the writer has published; k ranges over
//! every epoch-record read the request makes. For every k the request must return an error, or an
//! (epoch, root hash) pair that was really published together with a proof that verifies against it.
//! Prints "FAIL <what>" lines; exit 1 if any, 0 otherwise.
use akd::append_only_zks::AzksParallelismConfig;
use akd::client::{key_history_verify, lookup_verify};
use akd::directory::Directory;
use akd::ecvrf::HardCodedAkdVRF;
use akd::errors::StorageError;
use akd::storage::memory::AsyncInMemoryDatabase;
use akd::storage::types::{DbRecord, KeyData, StorageType, ValueState, ValueStateRetrievalFlag};
use akd::storage::{Database, DbSetState, Storable, StorageManager};
use akd::{AkdLabel, AkdValue, EpochHash, HistoryParams, HistoryVerificationParams};
use async_trait::async_trait;
use std::collections::HashMap;
use std::sync::atomic::{AtomicUsize, Ordering};
use std::sync::Arc;
use tokio::sync::{Notify, Semaphore};

type TC = akd::WhatsAppV1Configuration;

#[derive(Clone)]
struct GateDb {
    inner: AsyncInMemoryDatabase,
    azks_reads: Arc<AtomicUsize>,
    stop_at: Arc<AtomicUsize>,
    reached: Arc<Notify>,
    resume: Arc<Semaphore>,
}

#[async_trait]
impl Database for GateDb {
    async fn set(&self, record: DbRecord) -> Result<(), StorageError> {
        self.inner.set(record).await
    }
    async fn batch_set(&self, records: Vec<DbRecord>, state: DbSetState) -> Result<(), StorageError> {
        self.inner.batch_set(records, state).await
    }
    async fn get<St: Storable>(&self, id: &St::StorageKey) -> Result<DbRecord, StorageError> {
        if St::data_type() == StorageType::Azks {
            let n = self.azks_reads.fetch_add(1, Ordering::SeqCst) + 1;
            if n == self.stop_at.load(Ordering::SeqCst) {
                self.reached.notify_one();
                self.resume.acquire().await.unwrap().forget();
            }
        }
        self.inner.get::<St>(id).await
    }
    async fn batch_get<St: Storable>(&self, ids: &[St::StorageKey]) -> Result<Vec<DbRecord>, StorageError> {
        self.inner.batch_get::<St>(ids).await
    }
    async fn get_user_data(&self, username: &AkdLabel) -> Result<KeyData, StorageError> {
        self.inner.get_user_data(username).await
    }
    async fn get_user_state(&self, username: &AkdLabel, flag: ValueStateRetrievalFlag) -> Result<ValueState, StorageError> {
        self.inner.get_user_state(username, flag).await
    }
    async fn get_user_state_versions(&self, usernames: &[AkdLabel], flag: ValueStateRetrievalFlag) -> Result<HashMap<AkdLabel, (u64, AkdValue)>, StorageError> {
        self.inner.get_user_state_versions(usernames, flag).await
    }
}

#[derive(Clone, Copy, Debug)]
enum Req {
    History,
    Lookup,
    EpochHash,
}

/// one schedule: the reader's `stop_at`-th epoch-record read waits for a publish. Returns
/// (number of epoch-record reads the request made, failure description if any)
async fn schedule(req: Req, stop_at: usize) -> (usize, Option<String>) {
    let db = AsyncInMemoryDatabase::new();
    let writer = Directory::<TC, _, _>::new(StorageManager::new_no_cache(db.clone()), HardCodedAkdVRF {}, AzksParallelismConfig::default()).await.unwrap();
    let alice = AkdLabel::from("alice");
    let mut published: Vec<EpochHash> = vec![writer.get_epoch_hash().await.unwrap()];
    for e in 1..=3u64 {
        writer.publish(vec![(alice.clone(), AkdValue::from(format!("a{e}").as_str())), (AkdLabel::from(format!("o{e}").as_str()), AkdValue::from("x"))]).await.unwrap();
        published.push(writer.get_epoch_hash().await.unwrap());
    }
    let gate = GateDb { inner: db.clone(), azks_reads: Arc::new(AtomicUsize::new(0)), stop_at: Arc::new(AtomicUsize::new(0)), reached: Arc::new(Notify::new()), resume: Arc::new(Semaphore::new(0)) };
    let reader = Directory::<TC, _, _>::new(StorageManager::new_no_cache(gate.clone()), HardCodedAkdVRF {}, AzksParallelismConfig::default()).await.unwrap();
    let pk = reader.get_public_key().await.unwrap();
    gate.azks_reads.store(0, Ordering::SeqCst);
    gate.stop_at.store(stop_at, Ordering::SeqCst);

    let w = async {
        // publish epoch 4 once the reader stands at the gate (or never, if it does not get there)
        tokio::select! {
            _ = gate.reached.notified() => {
                writer.publish(vec![(alice.clone(), AkdValue::from("a4")), (AkdLabel::from("o4"), AkdValue::from("x"))]).await.unwrap();
                let eh = writer.get_epoch_hash().await.unwrap();
                gate.resume.add_permits(1);
                Some(eh)
            }
            _ = tokio::time::sleep(std::time::Duration::from_millis(300)) => None,
        }
    };
    let r = async {
        let out = match req {
            Req::History => reader.key_history(&alice, HistoryParams::Complete).await.map(|(p, eh)| {
                let v = key_history_verify::<TC>(pk.as_bytes(), eh.1, eh.0, alice.clone(), p, HistoryVerificationParams::default()).map(|r| r.len());
                (eh, format!("{v:?}"), v.is_ok())
            }),
            Req::Lookup => reader.lookup(alice.clone()).await.map(|(p, eh)| {
                let v = lookup_verify::<TC>(pk.as_bytes(), eh.1, eh.0, alice.clone(), p).map(|r| r.version);
                (eh, format!("{v:?}"), v.is_ok())
            }),
            Req::EpochHash => reader.get_epoch_hash().await.map(|eh| (eh, String::from("-"), true)),
        };
        gate.resume.add_permits(1_000); // never block the writer's later reads
        out
    };
    let (new_eh, out) = tokio::join!(w, r);
    if let Some(eh) = new_eh {
        published.push(eh);
    }
    let reads = gate.azks_reads.load(Ordering::SeqCst);
    let fail = match out {
        Err(_) => None, // an error is an allowed answer
        Ok((eh, verdict, ok)) => {
            if !published.iter().any(|p| p.0 == eh.0 && p.1 == eh.1) {
                Some(format!("{req:?}: publish during epoch-record read {stop_at}: answered (epoch {}, root {:02x}{:02x}..) which was never published", eh.0, eh.1[0], eh.1[1]))
            } else if !ok {
                Some(format!("{req:?}: publish during epoch-record read {stop_at}: the answer names published epoch {} but its proof does not verify against it: {verdict}", eh.0))
            } else {
                None
            }
        }
    };
    (reads, fail)
}

fn main() {
    let rt = tokio::runtime::Builder::new_current_thread().enable_time().build().unwrap();
    let mut fails = Vec::new();
    let mut explored = 0;
    for req in [Req::EpochHash, Req::Lookup, Req::History] {
        // a run without interference tells how many epoch-record reads the request makes
        let (reads, f0) = rt.block_on(schedule(req, 0));
        if let Some(f) = f0 {
            fails.push(f);
        }
        for k in 1..=reads.max(1) {
            let (_, f) = rt.block_on(schedule(req, k));
            explored += 1;
            if let Some(f) = f {
                fails.push(f);
            }
        }
        println!("native_stitch: {req:?} reads the epoch record {reads} time(s) per request");
    }
    for f in &fails {
        println!("FAIL {f}");
    }
    println!("native_stitch: {explored} schedules, {} failed", fails.len());
    std::process::exit(if fails.is_empty() { 0 } else { 1 });
}
