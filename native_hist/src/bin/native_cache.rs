//! Native confirmation for the cache-coherence kernel (C16): a storage manager WITH object cache
//! over a database that can be told to reject writes. After any sequence of accepted and rejected
//! single / batched writes, a read through the manager must return what the database holds.
//! Prints "FAIL <what>" lines; exit 1 if any, 0 otherwise.
use akd::errors::StorageError;
use akd::storage::memory::AsyncInMemoryDatabase;
use akd::storage::types::{DbRecord, KeyData, ValueState, ValueStateKey, ValueStateRetrievalFlag};
use akd::storage::{Database, DbSetState, Storable, StorageManager};
use akd::{AkdLabel, AkdValue, NodeLabel};
use async_trait::async_trait;
use std::collections::HashMap;
use std::sync::atomic::{AtomicBool, Ordering};
use std::sync::Arc;

#[derive(Clone)]
struct RejectDb {
    inner: AsyncInMemoryDatabase,
    reject: Arc<AtomicBool>,
}

#[async_trait]
impl Database for RejectDb {
    async fn set(&self, record: DbRecord) -> Result<(), StorageError> {
        if self.reject.load(Ordering::SeqCst) {
            return Err(StorageError::Connection("injected: write rejected".to_string()));
        }
        self.inner.set(record).await
    }
    async fn batch_set(&self, records: Vec<DbRecord>, state: DbSetState) -> Result<(), StorageError> {
        if self.reject.load(Ordering::SeqCst) {
            return Err(StorageError::Connection("injected: write rejected".to_string()));
        }
        self.inner.batch_set(records, state).await
    }
    async fn get<St: Storable>(&self, id: &St::StorageKey) -> Result<DbRecord, StorageError> {
        self.inner.get::<St>(id).await
    }
    async fn batch_get<St: Storable>(&self, ids: &[St::StorageKey]) -> Result<Vec<DbRecord>, StorageError> {
        self.inner.batch_get::<St>(ids).await
    }
    async fn get_user_data(&self, username: &AkdLabel) -> Result<KeyData, StorageError> {
        self.inner.get_user_data(username).await
    }
    async fn get_user_state(&self, username: &AkdLabel, flag: ValueStateRetrievalFlag) -> Result<ValueState, StorageError> {
        self.inner.get_user_state(username, flag).await
    }
    async fn get_user_state_versions(&self, usernames: &[AkdLabel], flag: ValueStateRetrievalFlag) -> Result<HashMap<AkdLabel, (u64, AkdValue)>, StorageError> {
        self.inner.get_user_state_versions(usernames, flag).await
    }
}

fn vs(user: &str, epoch: u64, val: &str) -> DbRecord {
    DbRecord::ValueState(ValueState { value: AkdValue::from(val), version: epoch, label: NodeLabel { label_val: [epoch as u8; 32], label_len: 256 }, epoch, username: AkdLabel::from(user) })
}
fn key(user: &str, epoch: u64) -> ValueStateKey {
    ValueStateKey(AkdLabel::from(user).0, epoch)
}
fn val_of(r: &Result<DbRecord, StorageError>) -> String {
    match r {
        Ok(DbRecord::ValueState(v)) => String::from_utf8_lossy(&v.value.0).to_string(),
        Ok(_) => "<other record>".into(),
        Err(_) => "<not found>".into(),
    }
}

async fn run() -> Vec<String> {
    let mut fails = Vec::new();
    let db = RejectDb { inner: AsyncInMemoryDatabase::new(), reject: Arc::new(AtomicBool::new(false)) };
    let m = StorageManager::new(db.clone(), None, None, None);
    let check = |what: String, via_manager: String, in_db: String, fails: &mut Vec<String>| {
        if via_manager != in_db {
            fails.push(format!("{what}: a read through the manager returns {via_manager:?}, the database holds {in_db:?}"));
        }
    };
    // accepted write, then a rejected overwrite of the same key
    m.set(vs("a", 1, "v1")).await.unwrap();
    db.reject.store(true, Ordering::SeqCst);
    let r = m.set(vs("a", 1, "v2-rejected")).await;
    db.reject.store(false, Ordering::SeqCst);
    if r.is_ok() {
        fails.push("set returned Ok although the database rejected the write".into());
    }
    check("after a rejected set over an existing record".into(), val_of(&m.get::<ValueState>(&key("a", 1)).await), val_of(&db.inner.get::<ValueState>(&key("a", 1)).await), &mut fails);
    // rejected write of a new key
    db.reject.store(true, Ordering::SeqCst);
    let _ = m.set(vs("b", 1, "never-stored")).await;
    db.reject.store(false, Ordering::SeqCst);
    check("after a rejected set of a new record".into(), val_of(&m.get::<ValueState>(&key("b", 1)).await), val_of(&db.inner.get::<ValueState>(&key("b", 1)).await), &mut fails);
    // rejected batch
    m.batch_set(vec![vs("c", 1, "c1"), vs("d", 1, "d1")]).await.unwrap();
    db.reject.store(true, Ordering::SeqCst);
    let r = m.batch_set(vec![vs("c", 1, "c2-rejected"), vs("e", 1, "never-stored")]).await;
    db.reject.store(false, Ordering::SeqCst);
    if r.is_ok() {
        fails.push("batch_set returned Ok although the database rejected the write".into());
    }
    for (u, what) in [("c", "after a rejected batch_set over an existing record"), ("e", "after a rejected batch_set of a new record"), ("d", "an untouched record after a rejected batch_set")] {
        check(what.into(), val_of(&m.get::<ValueState>(&key(u, 1)).await), val_of(&db.inner.get::<ValueState>(&key(u, 1)).await), &mut fails);
    }
    // batched read agrees too
    let ids = vec![key("a", 1), key("c", 1), key("d", 1)];
    let via = m.batch_get::<ValueState>(&ids).await.map(|v| { let mut x: Vec<String> = v.iter().map(|r| val_of(&Ok(r.clone()))).collect(); x.sort(); x });
    let raw = db.inner.batch_get::<ValueState>(&ids).await.map(|v| { let mut x: Vec<String> = v.iter().map(|r| val_of(&Ok(r.clone()))).collect(); x.sort(); x });
    if format!("{via:?}") != format!("{raw:?}") {
        fails.push(format!("batch_get through the manager returns {via:?}, the database holds {raw:?}"));
    }
    // a pending (uncommitted) value that a batched read inside the transaction has seen must not
    // survive the rollback in the cache
    m.set(vs("p", 1, "p-committed")).await.unwrap();
    m.set(vs("q", 1, "q-committed")).await.unwrap();
    m.flush_cache().await;
    m.begin_transaction();
    m.set(vs("p", 1, "p-pending")).await.unwrap();
    let _ = m.batch_get::<ValueState>(&[key("p", 1), key("q", 1)]).await;
    let _ = m.rollback_transaction();
    for u in ["p", "q"] {
        check(format!("after a rolled-back transaction whose pending value of {u:?} a batch_get had read"), val_of(&m.get::<ValueState>(&key(u, 1)).await), val_of(&db.inner.get::<ValueState>(&key(u, 1)).await), &mut fails);
    }
    // accepted writes are visible, a flush changes nothing observable
    m.set(vs("a", 1, "v3")).await.unwrap();
    check("after an accepted overwrite".into(), val_of(&m.get::<ValueState>(&key("a", 1)).await), val_of(&db.inner.get::<ValueState>(&key("a", 1)).await), &mut fails);
    m.flush_cache().await;
    check("after a flush".into(), val_of(&m.get::<ValueState>(&key("a", 1)).await), val_of(&db.inner.get::<ValueState>(&key("a", 1)).await), &mut fails);
    fails
}

fn main() {
    let rt = tokio::runtime::Builder::new_current_thread().enable_time().build().unwrap();
    let fails = rt.block_on(run());
    for f in &fails {
        println!("FAIL {f}");
    }
    println!("native_cache: {} failed", fails.len());
    std::process::exit(if fails.is_empty() { 0 } else { 1 });
}
