"""Engine K: run one Kani harness over the real crate, classify the result.

A harness run is one `cargo kani --harness <h>` process (own log, memory cap, time cap).
Verdicts:
  pass          VERIFICATION:- SUCCESSFUL, no failed check, every cover satisfied
  fail          at least one failed check of a *named* class (assertion / panic / overflow /
                bounds ...) located in /repo sources or in the harness crate
  inconclusive  timeout, out of memory, unwinding assertion failed, unsatisfied cover
                (vacuous harness), a failed check of another class, or a tool error
A timeout or OOM is never reported as success.
"""
import os
import re
import resource
import subprocess
import time

VERIF = os.path.dirname(os.path.dirname(os.path.abspath(__file__)))
BUILD = os.path.join(VERIF, ".build")

CHECK_RE = re.compile(
    r"^Check (\d+): ([^\n]+)\n\s+- Status: (\S+)\n\s+- Description: \"(.*?)\"\n(?:\s+- Location: ([^\n]*)\n)?",
    re.M | re.S,
)

# classes of failed checks that are read as "the property (or a no-panic clause) is violated"
NAMED_CLASSES = ("assertion", "overflow", "array_bounds", "bounds_check", "division-by-zero", "arithmetic_overflow")


def _limits(mem_kb):
    def f():
        resource.setrlimit(resource.RLIMIT_AS, (mem_kb * 1024, mem_kb * 1024))
        os.setsid()
    return f


def crate_env(extra_rustflags=None):
    env = dict(os.environ)
    env["CARGO_NET_OFFLINE"] = "true"
    env.pop("RUSTUP_TOOLCHAIN", None)
    if extra_rustflags:
        env["RUSTFLAGS"] = (env.get("RUSTFLAGS", "") + " " + extra_rustflags).strip()
    return env


def run_harness(crate, harness, cap_s, mem_gb=10, rustflags=None, extra_args=(), log_dir=None, tag=None):
    """Run one harness; returns a result dict."""
    crate_dir = os.path.join(VERIF, crate)
    target = os.path.join(BUILD, crate)
    os.makedirs(target, exist_ok=True)
    log_dir = log_dir or os.path.join(BUILD, "logs")
    os.makedirs(log_dir, exist_ok=True)
    log = os.path.join(log_dir, (tag or harness.replace("::", "__")) + ".log")
    cmd = ["cargo", "kani", "-Z", "stubbing", "--harness", harness, "--exact", "--target-dir", target] + list(extra_args)
    t0 = time.time()
    timed_out = False
    with open(log, "w") as lf:
        p = subprocess.Popen(cmd, cwd=crate_dir, stdout=lf, stderr=subprocess.STDOUT,
                             env=crate_env(rustflags), preexec_fn=_limits(int(mem_gb * 1024 * 1024)))
        try:
            rc = p.wait(timeout=cap_s)
        except subprocess.TimeoutExpired:
            timed_out = True
            try:
                os.killpg(p.pid, 9)
            except ProcessLookupError:
                pass
            p.wait()
            rc = -9
    wall = time.time() - t0
    out = open(log, errors="replace").read()
    res = parse_output(out)
    res.update({"crate": crate, "harness": harness, "wall_s": round(wall, 2), "rc": rc, "log": log,
                "cap_s": cap_s, "mem_gb": mem_gb, "cmd": " ".join(cmd)})
    if timed_out:
        res["verdict"] = "inconclusive"
        res["reason"] = "time cap of %ds exceeded" % cap_s
    return res


def parse_output(out):
    checks = []
    for m in CHECK_RE.finditer(out):
        checks.append({"n": int(m.group(1)), "name": m.group(2), "status": m.group(3),
                       "desc": m.group(4), "loc": (m.group(5) or "").strip()})
    failed_all = [c for c in checks if c["status"] == "FAILURE"]
    # Tool artefact (documented in DESIGN.md): checks inside Kani's own C model of the allocator
    # (`__rust_dealloc` in kani_lib.c) fail spuriously in the drop glue of a partially moved struct
    # (lookup_verify moves `proof.value` into its result and then drops the rest of `proof`). They
    # are memory-model checks of safe Rust drop glue, not assertions of /repo or of a harness; a
    # failed assertion does not constrain other paths, so ignoring them cannot hide a violation of
    # the functional assertions. They are listed in the evidence as ignored.
    # Their knock-on effects -- pointer-validity checks (`safety_check`, `pointer_dereference`,
    # `precondition_instance`, `unsupported_construct`) that fail *inside the Rust standard library
    # or Kani's library* because an object was "freed" twice by that model -- are ignored too.
    # Checks located in /repo or in a harness crate are never ignored.
    def _artefact(c):
        if c["name"].startswith("__rust_dealloc."):
            return True
        loc = c["loc"]
        in_lib = "rustlib/src/rust/library" in loc or "/.kani/kani-" in loc or loc.startswith("library/kani") or loc.startswith("<builtin-library")
        cls = any(("." + k + ".") in c["name"] for k in ("safety_check", "pointer_dereference", "precondition_instance", "unsupported_construct", "precondition"))
        return in_lib and cls
    ignored = [c for c in failed_all if _artefact(c)]
    failed = [c for c in failed_all if not _artefact(c)]
    undet = [c for c in checks if c["status"] == "UNDETERMINED"]
    covers = [c for c in checks if ".cover." in c["name"] or c["status"] in ("SATISFIED", "UNSATISFIABLE", "UNREACHABLE") and "cover" in c["name"]]
    cov_sat = [c for c in covers if c["status"] == "SATISFIED"]
    stubs = re.findall(r"^\s*- Stub: (.*)$", out, re.M)
    vt = re.search(r"Verification Time: ([0-9.]+)s", out)
    vcc = re.search(r"(\d+) variables, (\d+) clauses", out)
    res = {
        "checks_total": len(checks),
        "checks_failed": [{"name": c["name"], "desc": c["desc"], "loc": c["loc"]} for c in failed],
        "checks_undetermined": len(undet),
        "covers_total": len(covers),
        "covers_satisfied": len(cov_sat),
        "solver_s": float(vt.group(1)) if vt else None,
        "sat_vars": int(vcc.group(1)) if vcc else None,
        "sat_clauses": int(vcc.group(2)) if vcc else None,
        "stubs_applied": stubs,
        "ignored_failed_checks": sorted(set(c["name"] for c in ignored)),
    }
    unwind_failed = [c for c in failed if ".unwind." in c["name"] or "unwinding assertion" in c["desc"]]
    if "VERIFICATION:- SUCCESSFUL" in out:
        if covers and len(cov_sat) < len(covers):
            res["verdict"] = "inconclusive"
            res["reason"] = "cover witness not satisfied (vacuous harness): %d of %d" % (len(cov_sat), len(covers))
        elif failed or undet:
            res["verdict"] = "inconclusive"
            res["reason"] = "SUCCESSFUL banner with failed/undetermined checks"
        else:
            res["verdict"] = "pass"
            res["reason"] = "all %d checks hold; %d/%d covers satisfied" % (len(checks), len(cov_sat), len(covers))
    elif "VERIFICATION:- FAILED" in out and ignored and not failed and not undet and len(cov_sat) == len(covers) \
            and not any(c["status"] == "ERROR" for c in checks):
        res["verdict"] = "pass"
        res["reason"] = "all %d checks hold except %d allocator-model checks in Kani/std library code (ignored tool artefact, see DESIGN); %d/%d covers satisfied" % (
            len(checks), len(ignored), len(cov_sat), len(covers))
    elif "VERIFICATION:- FAILED" in out:
        if unwind_failed:
            res["verdict"] = "inconclusive"
            res["reason"] = "unwinding assertion failed: the stated loop bound is too small"
        elif not failed:
            res["verdict"] = "inconclusive"
            res["reason"] = "FAILED banner without a failed check (tool error / out of memory)"
        else:
            named = [c for c in failed if any(("." + k) in c["name"] for k in NAMED_CLASSES)]
            if named and len(named) == len(failed):
                res["verdict"] = "fail"
                res["reason"] = "; ".join("%s @ %s" % (c["desc"], c["loc"]) for c in named[:4])
            elif named:
                res["verdict"] = "fail"
                res["reason"] = "; ".join("%s @ %s" % (c["desc"], c["loc"]) for c in named[:4]) + \
                    " (plus %d failed checks of other classes)" % (len(failed) - len(named))
            else:
                res["verdict"] = "inconclusive"
                res["reason"] = "only non-assertion checks failed: " + "; ".join(c["name"] for c in failed[:4])
    else:
        res["verdict"] = "inconclusive"
        tail = out.strip().splitlines()[-3:]
        res["reason"] = "no verification banner (build error, crash or out of memory): " + " | ".join(tail)
    return res


def concrete_playback(crate, harness, cap_s, mem_gb=10, rustflags=None, extra_args=()):
    """Re-run a failing harness asking Kani to print a concrete-playback unit test.
    Returns the list of generated test sources (possibly empty)."""
    crate_dir = os.path.join(VERIF, crate)
    target = os.path.join(BUILD, crate)
    # --no-slice-formula: keep every kani::any() in the trace, otherwise values that do not influence
    # the failing check are omitted from the playback test and all later values shift
    extra = list(extra_args)
    pre = [a for a in extra if a != "--cbmc-args" and extra.index(a) < (extra.index("--cbmc-args") if "--cbmc-args" in extra else len(extra))]
    post = extra[extra.index("--cbmc-args"):] if "--cbmc-args" in extra else []
    if "unstable-options" not in pre:
        pre = ["-Z", "unstable-options"] + pre
    cmd = ["cargo", "kani", "-Z", "stubbing", "-Z", "concrete-playback", "--concrete-playback=print",
           "--harness", harness, "--exact", "--target-dir", target] + pre + ["--no-slice-formula"] + post
    os.makedirs(os.path.join(BUILD, "logs"), exist_ok=True)
    log = os.path.join(BUILD, "logs", harness.replace("::", "__") + ".playback.log")
    with open(log, "w") as lf:
        p = subprocess.Popen(cmd, cwd=crate_dir, stdout=lf, stderr=subprocess.STDOUT,
                             env=crate_env(rustflags), preexec_fn=_limits(int(mem_gb * 1024 * 1024)))
        try:
            p.wait(timeout=cap_s)
        except subprocess.TimeoutExpired:
            try:
                os.killpg(p.pid, 9)
            except ProcessLookupError:
                pass
            p.wait()
            return []
    out = open(log, errors="replace").read()
    # Kani prints one playback test per failed check (artefact checks included), in no documented
    # order: return all distinct ones, the caller keeps the one that reproduces natively
    tests = re.findall(r"```\n(/// Test generated for harness.*?)```", out, re.S)
    if not tests:
        tests = re.findall(r"(#\[test\]\nfn kani_concrete_playback_.*?\n}\n)", out, re.S)
    # a long check description may wrap onto lines that are not doc comments: keep the test itself only
    tests = [t[t.index("#[test]"):] if "#[test]" in t else t for t in tests]
    seen, uniq = set(), []
    for t in tests:
        tn = re.search(r"fn (kani_concrete_playback_\w+)\(", t)
        key = tn.group(1) if tn else t
        if key not in seen:
            seen.add(key)
            uniq.append(t)
    return uniq
