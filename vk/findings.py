"""Known findings: /verif/known_findings.json, committed, never written at run time.

An 'open' entry is keyed by property + obligation *role* + a predicate over the counterexample
(for Kani obligations: which assertion text fired; for Engine M: a closed-form predicate that is
part of the SMT query itself). A violation that does not match an open entry is reported as a
VIOLATION. 'fixed' entries are documentation only and suppress nothing."""
import json
import os

from vk import kani

PATH = os.path.join(kani.VERIF, "known_findings.json")


def load():
    try:
        return json.load(open(PATH))
    except OSError:
        return {"open": [], "fixed": []}


def match(known, pid, ob, res, rp):
    for kf in known.get("open", []):
        if kf.get("property") != pid:
            continue
        if kf.get("engine", "kani") != ob["engine"]:
            continue
        if kf.get("obligation_role") and kf["obligation_role"] != ob.get("role", ob["id"]):
            continue
        needle = kf.get("failed_check_contains")
        if needle:
            failed = res.get("checks_failed", [])
            # every failed check must be the listed one: a second, different failure is a new violation
            if failed and all(needle in c["desc"] for c in failed):
                return kf
            continue
    return None
