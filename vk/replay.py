"""Native replay of solver counterexamples.

Kani obligations: the counterexample is Kani's concrete-playback unit test (the byte values of
every kani::any() in harness order). It is stored under /verif/replays/ and executed natively
(`cargo kani playback`, ordinary rustc, no CBMC) against the real /repo code the harness calls;
"reproduced" means the harness assertion (or a panic inside /repo code) fires natively too.
Engine-M obligations replay through the native probe binary (see vk/mirsmt/driver.py).
"""
import os
import re
import subprocess

from vk import kani

VERIF = kani.VERIF
REPLAYS = os.path.join(VERIF, "replays")


def _module_of(harness):
    return harness.split("::")[0]


def _playback_file(crate, module):
    return os.path.join(VERIF, crate, "src", "playback_%s.rs" % module)


def run_playback(crate, module, tests, rustflags=None, release=False, cap_s=900):
    """Put the generated tests in place, run them natively, restore the placeholder.
    `tests`: list of playback test sources. Returns the verdict of the first test that fails
    natively inside the modelled domain (with "test" = its source), else not_reproduced/error."""
    if isinstance(tests, str):
        tests = [tests]
    pf = _playback_file(crate, module)
    names = []
    for t in tests:
        tn = re.search(r"fn (kani_concrete_playback_\w+)\(", t)
        if not tn:
            return {"status": "error", "detail": "unrecognised playback test"}
        names.append(tn.group(1))
    with open(pf, "w") as f:
        f.write("\n".join(tests))
    try:
        env = kani.crate_env(rustflags)
        env["CARGO_TARGET_DIR"] = os.path.join(kani.BUILD, crate + "_playback")
        cmd = ["cargo", "kani", "playback", "-Z", "concrete-playback", "-Z", "stubbing"]
        if release:
            cmd.append("--release")
        # run exactly the generated tests (nothing else in the crate may influence the verdict)
        cmd += ["--", "kani_concrete_playback", "--test-threads=1"]
        p = subprocess.run(cmd, cwd=os.path.join(VERIF, crate), stdout=subprocess.PIPE,
                           stderr=subprocess.STDOUT, env=env, timeout=cap_s)
        out = p.stdout.decode(errors="replace")
    except subprocess.TimeoutExpired:
        out = "TIMEOUT"
    finally:
        with open(pf, "w") as f:
            f.write("")
    m = re.search(r"test result: (\w+)\. (\d+) passed; (\d+) failed", out)
    if not m:
        return {"status": "error", "detail": "playback did not run: " + out[-400:]}
    if int(m.group(2)) + int(m.group(3)) != len(tests):
        return {"status": "error", "detail": "expected %d playback tests to run, got %s passed / %s failed" % (len(tests), m.group(2), m.group(3))}
    left_domain = None
    for name, t in zip(names, tests):
        rm = re.search(r"test \S*%s \.\.\. (\w+)" % re.escape(name), out)
        if not rm:
            return {"status": "error", "detail": "no verdict for playback test " + name}
        if rm.group(1) != "FAILED":
            continue
        pm = re.search(r"thread '\S*%s'[^\n]* panicked at ([^\n]*)\n([^\n]*)" % re.escape(name), out)
        detail = (pm.group(1) + " " + pm.group(2)) if pm else "test failed natively"
        if "excluded path" in detail or "assumption" in detail.lower():
            left_domain = detail
            continue
        return {"status": "reproduced", "detail": detail, "test": t, "tests_tried": len(tests)}
    if left_domain:
        return {"status": "error", "detail": "native run left the modelled domain: " + left_domain}
    return {"status": "not_reproduced", "detail": "native run of the harness with the solver's values passed (%d playback tests)" % len(tests)}


def confirm(pid, ob, res, tier):
    os.makedirs(REPLAYS, exist_ok=True)
    if ob["engine"] != "kani":
        return res.get("replay", {"status": "error", "detail": "engine provides no replay"})
    test = kani.concrete_playback(ob["crate"], ob["harness"], cap_s=max(600, 2 * ob["cap_s"][-1]),
                                  mem_gb=ob.get("mem_gb", 12), rustflags=ob.get("rustflags"),
                                  extra_args=ob.get("kani_args", ()))
    if not test:
        return {"status": "error", "detail": "Kani produced no concrete playback"}
    tests = test[:12]
    r = run_playback(ob["crate"], _module_of(ob["harness"]), tests, ob.get("rustflags"))
    test = r.pop("test", tests[0])
    path = os.path.join(REPLAYS, "%s_%s.rs" % (pid, ob["id"].replace("/", "_").replace(".", "_")))
    header = "// replay-of: property=%s obligation=%s crate=%s harness=%s rustflags=%s\n" % (
        pid, ob["id"], ob["crate"], ob["harness"], ob.get("rustflags") or "")
    with open(path, "w") as f:
        f.write(header + test)
    r["path"] = path
    return r


def replay_file(path):
    src = open(path).read()
    m = re.match(r"// replay-of: property=(\S+) obligation=(\S+) crate=(\S+) harness=(\S+) rustflags=(.*)\n", src)
    if not m:
        if path.endswith(".json"):
            from vk.mirsmt import driver
            return driver.replay_file(path)
        print("not a replay file written by this framework:", path)
        return 2
    pid, obid, crate, harness, rf = m.groups()
    r = run_playback(crate, _module_of(harness), src[m.end():], rf.strip() or None)
    r.pop("test", None)
    print("replay %s %s: %s (%s)" % (pid, obid, r["status"], r.get("detail", "")))
    if r["status"] == "reproduced":
        print("VIOLATION property=%s replay=%s" % (pid, path))
        return 1
    return 0 if r["status"] == "not_reproduced" else 2
