"""Locate functions in /repo's *current* sources: 'path::fn_name' -> 'path:first-last'.
Used so that evidence names the code that was actually encoded on this run."""
import os
import re

REPO = "/repo"


def fn_range(relpath, name, nth=0):
    path = os.path.join(REPO, relpath)
    try:
        src = open(path).read()
    except OSError:
        return "%s::%s (file missing)" % (relpath, name)
    hits = [m for m in re.finditer(r"\bfn\s+%s\s*(<|\()" % re.escape(name), src)]
    if len(hits) <= nth:
        return "%s::%s (not found in current source)" % (relpath, name)
    m = hits[nth]
    start_line = src.count("\n", 0, m.start()) + 1
    i = src.find("{", m.end())
    semi = src.find(";", m.end())
    if i < 0 or (0 <= semi < i):
        return "%s:%d (%s, declaration)" % (relpath, start_line, name)
    depth = 0
    j = i
    while j < len(src):
        c = src[j]
        if c == "{":
            depth += 1
        elif c == "}":
            depth -= 1
            if depth == 0:
                break
        j += 1
    end_line = src.count("\n", 0, j) + 1
    return "%s:%d-%d (%s)" % (relpath, start_line, end_line, name)


def resolve(specs):
    """specs: list of 'relpath::fn' or 'relpath::fn#n'."""
    out = []
    for s in specs:
        rel, _, fn = s.partition("::")
        nth = 0
        if "#" in fn:
            fn, _, k = fn.partition("#")
            nth = int(k)
        out.append(fn_range(rel, fn, nth))
    return out


def repo_state():
    import subprocess
    try:
        head = subprocess.run(["git", "-C", REPO, "rev-parse", "--short", "HEAD"], capture_output=True, text=True).stdout.strip()
        dirty = subprocess.run(["git", "-C", REPO, "status", "--porcelain", "--untracked-files=no"], capture_output=True, text=True).stdout.strip()
        return {"head": head, "dirty_files": [l[3:] for l in dirty.splitlines()]}
    except Exception as e:  # pragma: no cover
        return {"error": str(e)}
