#!/usr/bin/env python3
"""Entry point: ./check <PROPERTY> [quick|thorough]   |   ./check --replay <path>

Exit codes: 0 = every obligation discharged by the solver (known findings are printed, not
raised); 1 = a violation that is not a listed known finding and that reproduced natively
("VIOLATION property=<id> replay=<path>"); 2 = inconclusive (time/memory cap, tool error,
non-reproducing counterexample) -- never reported as success.
"""
import concurrent.futures as cf
import json
import os
import sys
import time

HERE = os.path.dirname(os.path.abspath(__file__))
VERIF = os.path.dirname(HERE)
sys.path.insert(0, VERIF)

from vk import kani, srcmap, replay, findings  # noqa: E402
from vk.registry import PROPERTIES  # noqa: E402


def run_kani_ob(ob, tier, seed):
    cap = ob["cap_s"][0 if tier == "quick" else 1]
    res = kani.run_harness(ob["crate"], ob["harness"], cap_s=cap, mem_gb=ob.get("mem_gb", 12),
                           rustflags=ob.get("rustflags"), extra_args=ob.get("kani_args", ()))
    res["engine"] = "kani"
    return res


def run_ob(ob, tier, seed):
    if ob["engine"] == "kani":
        return run_kani_ob(ob, tier, seed)
    if ob["engine"] == "mir":
        import subprocess
        p = subprocess.run(["python3-vt", "-m", "vk.mirsmt.driver"], cwd=VERIF, input=json.dumps({"ob": ob, "tier": tier, "seed": seed}).encode(),
                           stdout=subprocess.PIPE, stderr=subprocess.PIPE, timeout=ob["cap_s"][0 if tier == "quick" else 1] + 600)
        out = p.stdout.decode(errors="replace")
        if "@@RESULT@@" not in out:
            return {"engine": "mir", "verdict": "inconclusive", "wall_s": 0,
                    "reason": "worker crashed (rc %s): %s" % (p.returncode, p.stderr.decode(errors="replace")[-300:])}
        return json.loads(out.split("@@RESULT@@", 1)[1])
    raise ValueError(ob["engine"])


def main(argv):
    if len(argv) >= 2 and argv[0] == "--replay":
        return replay.replay_file(argv[1])
    if not argv:
        print(__doc__)
        return 2
    pid = argv[0]
    tier = argv[1] if len(argv) > 1 else os.environ.get("VERIF_TIER", "quick")
    if tier not in ("quick", "thorough"):
        tier = "quick"
    seed = int(os.environ.get("VERIF_SEED", "0") or 0)
    if pid not in PROPERTIES:
        print("unknown or unclaimed property", pid)
        return 2
    prop = PROPERTIES[pid]
    t0 = time.time()
    obs = prop["obligations"](tier, seed)
    only = os.environ.get("VERIF_ONLY")     # development aid: run a subset of the obligations (never used by the registered commands)
    if only:
        obs = [o for o in obs if any(x in o["id"] for x in only.split(","))]
    workers = int(os.environ.get("VERIF_JOBS", "0") or 0) or prop.get("jobs", 8)
    results = {}
    print("[%s/%s] %d obligations, %d workers, seed %d" % (pid, tier, len(obs), workers, seed), flush=True)
    # warm the build once so that parallel runs do not all wait on the cargo lock for a cold build
    warmed = set()
    for ob in obs:
        if ob["engine"] == "kani" and (ob["crate"], ob.get("rustflags")) not in warmed:
            warmed.add((ob["crate"], ob.get("rustflags")))
    if any(ob["engine"] == "mir" for ob in obs):
        from vk.mirsmt import driver
        tprep = time.time()
        driver.prepare()
        print("  MIR dumps regenerated from /repo and native probe rebuilt in %.0fs" % (time.time() - tprep), flush=True)
    # memory-heavy obligations (address-space cap above 16 GB) run after the others, two at a time:
    # the machine has 62 GB and no swap
    heavy = [ob for ob in obs if ob.get("mem_gb", 12) > 16]
    for group, nworkers in (([ob for ob in obs if ob not in heavy], workers), (heavy, 2)):
        if not group:
            continue
        with cf.ThreadPoolExecutor(max_workers=nworkers) as ex:
            futs = {ex.submit(run_ob, ob, tier, seed): ob for ob in group}
            for f in cf.as_completed(futs):
                ob = futs[f]
                try:
                    r = f.result()
                except Exception as e:  # engine error
                    r = {"verdict": "inconclusive", "reason": "engine error: %r" % (e,), "wall_s": 0}
                results[ob["id"]] = r
                print("  %-34s %-12s %7.1fs  %s" % (ob["id"], r["verdict"], r.get("wall_s", 0), r.get("reason", "")[:150]), flush=True)

    # ---- classify ------------------------------------------------------------------------
    known = findings.load()
    violations, known_hits, inconclusive, unreplayed = [], [], [], []
    failing = [ob for ob in obs if results[ob["id"]]["verdict"] == "fail"]
    for ob in obs:
        if results[ob["id"]]["verdict"] == "inconclusive":
            inconclusive.append((ob, results[ob["id"]]))
    # counterexamples are replayed natively against the real code; at most MAX_REPLAYS of them
    # (each replay re-runs the solver for the concrete values), the rest is listed as not replayed
    MAX_REPLAYS = int(os.environ.get("VERIF_MAX_REPLAYS", "3"))
    # one representative per role first, so that different kinds of failure are all confirmed
    seen_roles, ordered = set(), []
    for ob in failing:
        if ob.get("role") not in seen_roles:
            seen_roles.add(ob.get("role"))
            ordered.append(ob)
    ordered += [ob for ob in failing if ob not in ordered]
    to_replay, rest = ordered[:MAX_REPLAYS], ordered[MAX_REPLAYS:]
    def _confirm(ob):
        return ob, replay.confirm(pid, ob, results[ob["id"]], tier)
    with cf.ThreadPoolExecutor(max_workers=1) as ex2:   # playback shares one source file: sequential
        confirmed = list(ex2.map(_confirm, to_replay))
    for ob, rp in confirmed:
        r = results[ob["id"]]
        r["replay"] = rp
        if rp["status"] == "reproduced":
            kf = findings.match(known, pid, ob, r, rp)
            if kf:
                known_hits.append((ob, r, kf))
            else:
                violations.append((ob, r, rp))
        else:
            r["verdict"] = "inconclusive"
            r["reason"] = "counterexample did not reproduce natively (%s): encoding or stub at fault" % rp.get("detail", "")
            inconclusive.append((ob, r))
    for ob in rest:
        r = results[ob["id"]]
        kf = findings.match(known, pid, ob, r, {"status": "not_replayed"})
        if kf:
            known_hits.append((ob, r, kf))
        else:
            unreplayed.append((ob, r))
    # engine-level known findings (e.g. C08-M4) are reported by the engine itself
    for ob in obs:
        for kf in results[ob["id"]].get("known_findings", []):
            known_hits.append((ob, results[ob["id"]], kf))

    wall = time.time() - t0
    write_evidence(pid, prop, tier, seed, obs, results, wall, violations, known_hits, inconclusive)

    for ob, r, kf in known_hits:
        print("KNOWN-FINDING: property=%s %s" % (pid, kf["what"]))
    for ob, r, rp in violations:
        print("VIOLATION property=%s replay=%s" % (pid, rp["path"]))
        print("  obligation %s: %s" % (ob["id"], r.get("reason", "")))
    for ob, r in unreplayed:
        print("  also failing (counterexample not replayed, replay budget %d): %s: %s" % (MAX_REPLAYS, ob["id"], r.get("reason", "")[:160]))
    if violations:
        return 1
    if unreplayed:
        inconclusive += unreplayed
    if inconclusive:
        for ob, r in inconclusive:
            print("INCONCLUSIVE %s: %s (log %s)" % (ob["id"], r.get("reason", ""), r.get("log", "-")))
        return 2
    print("[%s/%s] all %d obligations discharged in %.0fs" % (pid, tier, len(obs), wall))
    return 0


def write_evidence(pid, prop, tier, seed, obs, results, wall, violations, known_hits, inconclusive):
    samples = []
    fn_specs = []
    discharged = 0
    nontrivial = 0
    queries = 0
    solver_s = 0.0
    trusted = set(prop.get("trusted_base", []))
    assumptions = list(prop.get("assumptions", []))
    for ob in obs:
        r = results[ob["id"]]
        fns = srcmap.resolve(ob.get("functions", []))
        for f in fns:
            if f not in fn_specs:
                fn_specs.append(f)
        ok = r["verdict"] == "pass"
        discharged += 1 if ok else 0
        witness_ok = r.get("covers_total", 0) > 0 and r.get("covers_satisfied") == r.get("covers_total") \
            or r.get("witness_ok", False)
        if ok and witness_ok:
            nontrivial += 1
        queries += r.get("queries", r.get("checks_total", 0))
        solver_s += r.get("solver_s") or 0.0
        samples.append({
            "obligation": ob["id"], "claim": ob["claim"], "engine": ob["engine"],
            "harness": ob.get("harness"), "functions_encoded": fns, "bound": ob.get("bound"),
            "instantiation": ob.get("instantiation"), "stubs": ob.get("stubs", []),
            "assumes": ob.get("assumes", []), "verdict": r["verdict"], "reason": r.get("reason"),
            "wall_s": r.get("wall_s"), "solver_s": r.get("solver_s"),
            "solver_checks_or_queries": r.get("queries", r.get("checks_total")),
            "sat_vars": r.get("sat_vars"), "sat_clauses": r.get("sat_clauses"),
            "vacuity_witness": "%s/%s covers satisfied" % (r.get("covers_satisfied"), r.get("covers_total"))
            if r.get("engine") == "kani" else r.get("witness"),
            "extra": r.get("extra"),
        })
        for s in ob.get("stubs", []):
            trusted.add("stub: " + s)
    ev = {
        "property_id": pid,
        "tier": tier,
        "seed": seed,
        "level": "model_checking",
        "coverage": {
            "evaluations": queries,
            "distinct_nontrivial": nontrivial,
            "rule": "one case = one solver-decided obligation (a Kani harness over compiled /repo code, or a batch of "
                    "SMT queries over the MIR of /repo functions). evaluations = number of individual solver checks/queries "
                    "decided on this run; an obligation counts as distinct_nontrivial only if the solver returned a verdict "
                    "for it AND its reachability witness (kani::cover / sat twin query) was satisfied, i.e. it is not vacuous.",
            "samples": samples,
            "obligations": len(obs),
            "discharged": discharged,
            "functions_encoded": fn_specs,
            "solver_time_s": round(solver_s, 2),
            "bounds": prop.get("bounds", {}).get(tier),
            "outside_claim": prop.get("outside_claim", []),
            "trusted_base": sorted(trusted),
            "known_findings_reported": [kf["what"] for _, _, kf in known_hits],
            "inconclusive": [ob["id"] for ob, _ in inconclusive],
            "repo_state": srcmap.repo_state(),
            "exhaustive": False,
        },
        "assumptions": assumptions,
        "wall_s": round(wall, 2),
        "violations": len(violations),
    }
    os.makedirs(os.path.join(VERIF, "evidence"), exist_ok=True)
    with open(os.path.join(VERIF, "evidence", pid + ".json"), "w") as f:
        json.dump(ev, f, indent=1)


if __name__ == "__main__":
    sys.exit(main(sys.argv[1:]))
