"""Engine M, third client: the body of `akd_core::verify::history::key_history_verify`.

Kani cannot decide this function as a whole (DESIGN 9.2). Its ingredients are decided separately:
`verify_with_history_params` (C07 shape layer), `verify_single_update_proof` (update layer), the
base.rs helpers (L1 layer). What is left is the *glue*: the loops that call those ingredients.
This module walks the MIR of the function symbolically for every concrete triple
(k update proofs, p past markers, f future markers) within the bound, with

  * the epochs of the update proofs 64-bit symbols, the verification parameter's variant a symbol,
  * every callee that is not a std container / iterator / formatting function treated as an
    *event*: it is recorded with its resolved arguments and returns `Ok(fresh)` or `Err(fresh)`
    under a fresh Boolean,
  * the vectors returned by `verify_with_history_params` of the concrete lengths p and f, their
    elements 64-bit symbols; the proof's marker vectors of the same lengths (this equality is a
    post-condition of `verify_with_history_params`, asserted by the shape layer),

and decides with z3, for every path that returns `Ok(results)`:

  G1  `verify_with_history_params(current_epoch, &label, &proof, history_params of the given
      verification parameter)` was called and returned Ok
  G2  for every j < k: `verify_single_update_proof(root_hash, vrf_pk, update_proofs[j], &label,
      verification_params)` was called, in order, and returned Ok
  G3  for every j >= 1: epoch[j] <= epoch[j-1]
  G4  for every i < p: `verify_existence(vrf_pk, root_hash, &label, Fresh, past[i],
      &past_marker_vrf_proofs[i], &existence_of_past_marker_proofs[i])` was called and returned Ok
  G5  for every i < f: `verify_nonexistence(vrf_pk, root_hash, &label, Fresh, future[i],
      &future_marker_vrf_proofs[i], &non_existence_of_future_marker_proofs[i])` was called and
      returned Ok
  G6  `results` is exactly [result of update 0, ..., result of update k-1]
  G7  no panic (index out of range) is reachable
and conversely
  G8  if every event returns Ok and the epochs are non-increasing, the function returns Ok.

Together with the three Kani layers this is C07 for `key_history_verify` itself, within the bound
k <= 3 (4 thorough), p, f <= 2 (3 thorough). Unwinding (panics inside callees) is outside the claim.
"""
import itertools
import json
import os
import re
import time

import z3

from .mirparse import split_args


class Unsupported(Exception):
    pass


class Sym:
    def __init__(self, name):
        self.name = name

    def __repr__(self):
        return "<%s>" % self.name

    def __eq__(self, o):
        return isinstance(o, Sym) and o.name == self.name

    def __hash__(self):
        return hash(self.name)


class Agg:
    def __init__(self, kind, fields):
        self.kind = kind
        self.fields = fields

    def __repr__(self):
        return "%s%r" % (self.kind, self.fields)


class Ref:
    """reference to a place of the current frame (by path) or to a value"""
    def __init__(self, place=None, value=None):
        self.place = place
        self.value = value

    def __repr__(self):
        return "&%s" % (self.place if self.place is not None else repr(self.value))


def bv(n):
    return z3.BitVecVal(n, 64)


# ---- place parsing --------------------------------------------------------------------------------
def parse_place(s):
    """-> nested tuples: ('local', '_5') | ('deref', p) | ('field', p, k) | ('downcast', p, 'Variant')"""
    s = s.strip()
    if re.match(r"^_\d+$", s):
        return ("local", s)
    if s.startswith("(*") and s.endswith(")"):
        return ("deref", parse_place(s[2:-1]))
    if s.startswith("(") and s.endswith(")"):
        inner = s[1:-1]
        # the base place
        if inner.startswith("("):
            depth = 0
            for i, ch in enumerate(inner):
                if ch == "(":
                    depth += 1
                elif ch == ")":
                    depth -= 1
                    if depth == 0:
                        break
            base, rest = inner[:i + 1], inner[i + 1:]
        else:
            m = re.match(r"^(_\d+)(.*)$", inner, re.S)
            if not m:
                raise Unsupported("place " + s)
            base, rest = m.group(1), m.group(2)
        m = re.match(r"^ as (\w+)$", rest)
        if m:
            return ("downcast", parse_place(base), m.group(1))
        m = re.match(r"^\.(\d+): ", rest)
        if m:
            return ("field", parse_place(base), int(m.group(1)))
    raise Unsupported("place " + s)


class Path:
    def __init__(self):
        self.events = []       # (name, args, okvar, payload)
        self.cond = z3.BoolVal(True)
        self.ret = None
        self.panic = None


class Walker:
    EVENT_FUNCS = ("verify_with_history_params", "verify_single_update_proof", "verify_existence", "verify_nonexistence",
                   "verify_existence_with_val", "verify_existence_with_commitment", "verify_label", "verify_membership", "verify_nonmembership",
                   "get_marker_versions", "get_marker_version_log2")

    def __init__(self, func, k, p, f, closures):
        self.func = func
        self.k, self.p, self.f = k, p, f
        self.closures = closures
        self.allow = z3.Bool("allow_missing_values")
        self.current_epoch = z3.BitVec("current_epoch", 64)
        self.epochs = [z3.BitVec("epoch_%d" % j, 64) for j in range(k)]
        self.past = [z3.BitVec("past_%d" % i, 64) for i in range(p)]
        self.future = [z3.BitVec("future_%d" % i, 64) for i in range(f)]
        self.paths = []
        self.nevent = 0
        self.steps = 0

    # ---- initial state ------------------------------------------------------------------------
    def initial(self, upd_fields, hist_fields):
        ups = []
        for j in range(self.k):
            fields = {}
            for idx, name in enumerate(upd_fields):
                fields[idx] = self.epochs[j] if name == "epoch" else Sym("update_proofs[%d].%s" % (j, name))
            a = Agg("UpdateProof", fields)
            a.tag = "update_proofs[%d]" % j
            ups.append(a)
        hp = {}
        for idx, name in enumerate(hist_fields):
            if name == "update_proofs":
                hp[idx] = Agg("Vec", {"items": ups})
            elif name in ("past_marker_vrf_proofs", "existence_of_past_marker_proofs"):
                hp[idx] = Agg("Vec", {"items": [Sym("%s[%d]" % (name, i)) for i in range(self.p)]})
            elif name in ("future_marker_vrf_proofs", "non_existence_of_future_marker_proofs"):
                hp[idx] = Agg("Vec", {"items": [Sym("%s[%d]" % (name, i)) for i in range(self.f)]})
            else:
                raise Unsupported("unknown HistoryProof field " + name)
        params = Agg("Enum", {"disc": z3.If(self.allow, bv(1), bv(0)), "variants": {"Default": {0: Sym("history_params@Default")}, "AllowMissingValues": {0: Sym("history_params@AllowMissingValues")}}})
        params.tag = "verification_params"
        return {"_1": Sym("vrf_public_key"), "_2": Sym("root_hash"), "_3": self.current_epoch, "_4": Sym("akd_label"),
                "_5": Agg("HistoryProof", hp), "_6": params}

    # ---- reading / writing places -------------------------------------------------------------
    def get(self, st, p):
        kind = p[0]
        if kind == "local":
            if p[1] not in st:
                raise Unsupported("read of unset local " + p[1])
            return st[p[1]]
        if kind == "deref":
            r = self.get(st, p[1])
            if isinstance(r, Ref):
                return self.get(st, r.place) if r.place is not None else r.value
            raise Unsupported("deref of %r" % (r,))
        if kind == "field":
            b = self.get(st, p[1]) if p[1][0] != "downcast" else None
            if p[1][0] == "downcast":
                base = self.get(st, p[1][1])
                var = p[1][2]
                if isinstance(base, Agg) and base.kind == "Enum":
                    return base.fields["variants"][var][p[2]]
                if isinstance(base, Agg) and base.kind in ("Option", "Result", "CF"):
                    return base.fields[var][p[2]] if isinstance(base.fields[var], dict) else base.fields[var]
                raise Unsupported("downcast of %r" % (base,))
            if isinstance(b, Agg) and p[2] in b.fields:
                return b.fields[p[2]]
            if isinstance(b, tuple) and b[0] == "tup":
                return b[1][p[2]]
            raise Unsupported("field %d of %r" % (p[2], b))
        raise Unsupported("place kind " + kind)

    def put(self, st, p, v):
        if p[0] == "local":
            st[p[1]] = v
            return
        if p[0] == "deref":
            r = self.get(st, p[1])
            if isinstance(r, Ref) and r.place is not None:
                return self.put(st, r.place, v)
        if p[0] == "field":
            b = self.get(st, p[1])
            if isinstance(b, Agg):
                nb = Agg(b.kind, dict(b.fields))
                nb.fields[p[2]] = v
                return self.put(st, p[1], nb)
        raise Unsupported("write to %r" % (p,))

    def operand(self, st, s):
        s = s.strip()
        for pre in ("no_retag copy ", "copy ", "move "):
            if s.startswith(pre):
                return self.get(st, parse_place(s[len(pre):]))
        if s.startswith("const "):
            c = s[6:].strip()
            m = re.match(r"^(-?\d+)_(u64|usize|u32|isize|u8)$", c)
            if m:
                return bv(int(m.group(1)))
            if c == "true":
                return True
            if c == "false":
                return False
            if c == "()":
                return Sym("()")
            return Sym("const")
        return self.get(st, parse_place(s))

    # ---- rvalues --------------------------------------------------------------------------------
    def rvalue(self, st, rv):
        rv = rv.strip()
        m = re.match(r"^(Gt|Lt|Ge|Le|Eq|Ne)\((.*)\)$", rv)
        if m:
            a, b = [self.operand(st, x) for x in split_args(m.group(2))]
            if not (z3.is_bv(a) and z3.is_bv(b)):
                raise Unsupported("comparison of non-integers")
            return {"Gt": z3.UGT, "Lt": z3.ULT, "Ge": z3.UGE, "Le": z3.ULE, "Eq": lambda x, y: x == y, "Ne": lambda x, y: x != y}[m.group(1)](a, b)
        m = re.match(r"^(Add|Sub)WithOverflow\((.*)\)$", rv)
        if m:
            a, b = [self.operand(st, x) for x in split_args(m.group(2))]
            if m.group(1) == "Add":
                return ("tup", [a + b, z3.ULT(a + b, a)])
            return ("tup", [a - b, z3.ULT(a, b)])
        m = re.match(r"^(Add|Sub)\((.*)\)$", rv)
        if m:
            a, b = [self.operand(st, x) for x in split_args(m.group(2))]
            return a + b if m.group(1) == "Add" else a - b
        m = re.match(r"^Not\((.*)\)$", rv)
        if m:
            a = self.operand(st, m.group(1))
            return (not a) if isinstance(a, bool) else z3.Not(a)
        m = re.match(r"^discriminant\((.*)\)$", rv)
        if m:
            v = self.get(st, parse_place(m.group(1)))
            return self.disc(v)
        m = re.match(r"^&(raw )?(mut |const )?(.*)$", rv)
        if m:
            return Ref(place=parse_place(m.group(3)))
        m = re.match(r"^(?:std::option::)?Option::<.*>::None$", rv)
        if m:
            return Agg("Option", {"disc": 0})
        m = re.match(r"^(?:std::option::)?Option::<.*?>::Some\((.*)\)$", rv)
        if m:
            return Agg("Option", {"disc": 1, "Some": {0: self.operand(st, m.group(1))}})
        m = re.match(r"^(?:std::result::)?Result::<.*>::(Ok|Err)\((.*)\)$", rv)
        if m:
            return Agg("Result", {"ok": m.group(1) == "Ok", m.group(1): {0: self.operand(st, m.group(2))}})
        m = re.match(r"^(?:verify::)?VerificationError::(\w+)\((.*)\)$", rv)
        if m:
            return Sym("VerificationError::" + m.group(1))
        if re.match(r"^(types::)?VersionFreshness::(Fresh|Stale)$", rv):
            return Sym("VersionFreshness::" + rv.rsplit("::", 1)[1])
        if rv.startswith("{closure@"):
            m = re.match(r"^(\{closure@[^}]*\}) \{(.*)\}$", rv)
            if m:
                return Sym("closure")
            return Sym("closure")
        if rv.startswith("(") and not re.match(r"^\((\*|_\d+[ .)]|\()", rv):
            pass
        if rv.startswith("[") and rv.endswith("]"):
            return Sym("array")
        m = re.match(r"^\((.*,.*)\)$", rv)
        if m and not rv.startswith("(*") and not re.match(r"^\(_\d+\.\d+: ", rv) and not re.match(r"^\(\(", rv):
            return ("tup", [self.operand(st, x) for x in split_args(m.group(1))])
        m = re.match(r"^(copy|move) (.*) as (\w+) \(.*\)$", rv)
        if m:
            return self.operand(st, m.group(1) + " " + m.group(2))
        return self.operand(st, rv)

    def disc(self, v):
        if isinstance(v, Agg):
            if v.kind == "Option":
                return v.fields["disc"]
            if v.kind == "Result":
                ok = v.fields["ok"]
                return (0 if ok else 1) if isinstance(ok, bool) else z3.If(ok, bv(0), bv(1))
            if v.kind == "CF":
                c = v.fields["cont"]
                return (0 if c else 1) if isinstance(c, bool) else z3.If(c, bv(0), bv(1))
            if v.kind == "Enum":
                return v.fields["disc"]
        raise Unsupported("discriminant of %r" % (v,))

    # ---- walking --------------------------------------------------------------------------------
    def run(self, st):
        self.walk("bb0", st, Path())

    def fork(self, path):
        np = Path()
        np.events = list(path.events)
        np.cond = path.cond
        return np

    def feasible(self, c):
        c = z3.simplify(c)
        if z3.is_false(c):
            return False
        if z3.is_true(c):
            return True
        s = z3.Solver()
        s.add(c)
        t0 = time.time()
        r = s.check() != z3.unsat
        SOLVER["s"] += time.time() - t0
        SOLVER["n"] += 1
        return r

    def walk(self, bb, st, path):
        while True:
            self.steps += 1
            if self.steps > 20000:
                raise Unsupported("walk too long (loop that does not depend on the concrete vector lengths?)")
            block = self.func.blocks[bb]
            st = dict(st)
            for s in block.stmts:
                if s.startswith(("StorageLive", "StorageDead", "nop", "FakeRead", "PlaceMention", "Retag", "Coverage", "AscribeUserType", "ConstEvalCounter")):
                    continue
                m = re.match(r"^(\S.*?) = (.*)$", s, re.S)
                if not m:
                    raise Unsupported("statement " + s)
                self.put(st, parse_place(m.group(1)), self.rvalue(st, m.group(2)))
            t = block.term
            if t == "return":
                path.ret = st.get("_0")
                self.paths.append(path)
                return
            if t in ("unreachable", "resume") or t.startswith("resume"):
                return
            if t.startswith("goto -> "):
                bb = t[8:]
                continue
            if t.startswith("switchInt("):
                m = re.match(r"switchInt\((.*)\) -> \[(.*)\]$", t)
                v = self.operand(st, m.group(1))
                arms = [x.strip().partition(": ") for x in m.group(2).split(",")]
                if isinstance(v, (bool, int)):
                    iv = int(v)
                    tgt = None
                    for kx, _, tg in arms:
                        if kx != "otherwise" and int(kx) == iv:
                            tgt = tg
                    if tgt is None:
                        tgt = [tg for kx, _, tg in arms if kx == "otherwise"][0]
                    bb = tgt
                    continue
                taken = []
                for kx, _, tg in arms:
                    if kx == "otherwise":
                        c = z3.And(*[z3.Not(x) for x in taken]) if taken else z3.BoolVal(True)
                    else:
                        c = (v if int(kx) else z3.Not(v)) if z3.is_bool(v) else (v == z3.BitVecVal(int(kx), v.size()))
                        taken.append(c)
                    nc = z3.And(path.cond, c)
                    if not self.feasible(nc):
                        continue
                    np = self.fork(path)
                    np.cond = z3.simplify(nc)
                    self.walk(tg, st, np)
                return
            if t.startswith("assert("):
                m = re.match(r"assert\((!?)(.*?), \"(.*)\".*-> \[success: (bb\d+), unwind.*\]$", t, re.S)
                c = self.operand(st, ("" if m.group(2).startswith(("copy", "move", "const")) else "copy ") + m.group(2))
                if m.group(1):
                    c = z3.Not(c) if not isinstance(c, bool) else (not c)
                if isinstance(c, bool):
                    if not c:
                        path.panic = m.group(3)
                        self.paths.append(path)
                        return
                else:
                    bad = z3.And(path.cond, z3.Not(c))
                    if self.feasible(bad):
                        np = self.fork(path)
                        np.cond = z3.simplify(bad)
                        np.panic = m.group(3)
                        self.paths.append(np)
                    path.cond = z3.simplify(z3.And(path.cond, c))
                bb = m.group(4)
                continue
            if t.startswith("drop("):
                bb = re.search(r"return: (bb\d+)", t).group(1)
                continue
            m = _split_call(t)
            if m:
                dest, callee, argstr, nxt = m
                args = [self.operand(st, a) for a in split_args(argstr)]
                r = self.call(st, callee, args, path)
                if r is PANIC:
                    self.paths.append(path)
                    return
                if nxt is None:
                    return
                self.put(st, parse_place(dest), r)
                bb = nxt
                continue
            raise Unsupported("terminator " + t)

    # ---- calls ----------------------------------------------------------------------------------
    def resolve(self, st, v, depth=0):
        """value an argument denotes (references followed), for comparison with the specification"""
        if isinstance(v, Ref) and depth < 8:
            inner = self.get(st, v.place) if v.place is not None else v.value
            return ("&", self.resolve(st, inner, depth + 1))
        return v

    def vec_of(self, st, v):
        if isinstance(v, Ref):
            v = self.get(st, v.place) if v.place is not None else v.value
        if isinstance(v, Ref):
            return self.vec_of(st, v)
        if isinstance(v, Agg) and v.kind in ("Vec", "Slice"):
            return v
        raise Unsupported("expected a vector, got %r" % (v,))

    def call(self, st, callee, args, path):
        c = callee.replace("std::", "").replace("core::", "").replace("alloc::", "")
        short = re.sub(r"::<.*$", "", c).split("::")[-1] if not c.startswith("<") else None
        base = re.sub(r"::<[^<>]*(<[^<>]*>[^<>]*)*>$", "", c)
        name = base.split("::")[-1]
        # events: the verifier's ingredients
        if name in self.EVENT_FUNCS and not c.startswith("<"):
            self.nevent += 1
            ok = z3.Bool("ok_%d_%s" % (self.nevent, name))
            if name == "verify_with_history_params":
                payload = ("tup", [Agg("Vec", {"items": list(self.past)}), Agg("Vec", {"items": list(self.future)})])
            elif name == "verify_single_update_proof":
                payload = Sym("result_of_update_call_%d" % self.nevent)
            else:
                payload = Sym("()")
            path.events.append((name, [self.resolve(st, a) for a in args], ok, payload))
            return Agg("Result", {"ok": ok, "Ok": {0: payload}, "Err": {0: Sym("error_of_call_%d" % self.nevent)}})
        if c.startswith("Vec::<") and name == "new":
            return Agg("Vec", {"items": []})
        if c.startswith("Vec::<") and name == "with_capacity":
            return Agg("Vec", {"items": []})
        if c.startswith("Vec::<") and name == "push":
            r = args[0]
            v = self.vec_of(st, r)
            self.put(st, r.place, Agg("Vec", {"items": v.fields["items"] + [args[1]]}))
            return Sym("()")
        if c.startswith("Vec::<") and name == "insert":
            r = args[0]
            v = self.vec_of(st, r)
            i = z3.simplify(args[1])
            if not z3.is_bv_value(i) or i.as_long() > len(v.fields["items"]):
                raise Unsupported("Vec::insert at a symbolic / out-of-range index")
            items = list(v.fields["items"])
            items.insert(i.as_long(), args[2])
            self.put(st, r.place, Agg("Vec", {"items": items}))
            return Sym("()")
        if re.match(r"^<.* as (default::)?Default>::default$", c):
            return Sym("default::" + c)
        if (c.startswith("Vec::<") or c.startswith("slice::<impl")) and name in ("len",):
            return bv(len(self.vec_of(st, args[0]).fields["items"]))
        if (c.startswith("Vec::<") or c.startswith("slice::<impl")) and name == "is_empty":
            return len(self.vec_of(st, args[0]).fields["items"]) == 0
        if re.match(r"^<Vec<.*> as (ops::)?(deref::)?Deref>::deref$", c) or re.match(r"^Vec::<.*>::as_slice$", c):
            a = args[0]
            while isinstance(a, Ref):
                a = self.get(st, a.place) if a.place is not None else a.value
            if isinstance(a, Sym):
                return Ref(value=a)    # an opaque byte vector: its slice has the same identity
            return Ref(value=self.vec_of(st, args[0]))
        if re.match(r"^<Vec<.*> as (ops::)?(index::)?Index<usize>>::index$", c) or re.match(r"^<\[.*\] as (ops::)?(index::)?Index<usize>>::index$", c):
            v = self.vec_of(st, args[0])
            i = args[1]
            if not z3.is_bv_value(z3.simplify(i)):
                raise Unsupported("symbolic index")
            i = z3.simplify(i).as_long()
            if i >= len(v.fields["items"]):
                path.panic = "index %d out of range (len %d) in %s" % (i, len(v.fields["items"]), callee)
                return PANIC
            return Ref(value=v.fields["items"][i])
        if re.match(r"^slice::<impl \[.*\]>::iter$", c) or re.match(r"^<&'?\w* ?Vec<.*> as (iter::)?(traits::)?(collect::)?IntoIterator>::into_iter$", c):
            v = self.vec_of(st, args[0])
            return Agg("Iter", {"items": [Ref(value=x) for x in v.fields["items"]], "pos": 0})
        if re.match(r"^<Vec<.*> as (iter::)?(traits::)?(collect::)?IntoIterator>::into_iter$", c):
            v = self.vec_of(st, args[0])
            return Agg("Iter", {"items": list(v.fields["items"]), "pos": 0})
        if re.match(r"^<.* as (iter::)?(traits::)?(collect::)?IntoIterator>::into_iter$", c):
            if isinstance(args[0], Agg) and args[0].kind == "Iter":
                return args[0]
            raise Unsupported("into_iter of %r" % (args[0],))
        if re.match(r"^<.* as (iter::)?(traits::)?(iterator::)?Iterator>::enumerate$", c):
            it = args[0]
            return Agg("Iter", {"items": [("tup", [bv(i), x]) for i, x in enumerate(it.fields["items"][it.fields["pos"]:])], "pos": 0})
        if re.match(r"^<.* as (iter::)?(traits::)?(iterator::)?Iterator>::(skip|take)$", c):
            it = args[0]
            n = z3.simplify(args[1])
            if not z3.is_bv_value(n):
                raise Unsupported("symbolic skip/take")
            items = it.fields["items"][it.fields["pos"]:]
            items = items[n.as_long():] if c.endswith("skip") else items[:n.as_long()]
            return Agg("Iter", {"items": items, "pos": 0})
        if re.match(r"^<.* as (iter::)?(traits::)?(iterator::)?Iterator>::rev$", c):
            it = args[0]
            return Agg("Iter", {"items": list(reversed(it.fields["items"][it.fields["pos"]:])), "pos": 0})
        if re.match(r"^<.* as (iter::)?(traits::)?(iterator::)?Iterator>::zip", c):
            a, b = args[0], args[1]
            if isinstance(b, Ref):
                b = Agg("Iter", {"items": [Ref(value=x) for x in self.vec_of(st, b).fields["items"]], "pos": 0})
            if isinstance(b, Agg) and b.kind == "Vec":
                b = Agg("Iter", {"items": list(b.fields["items"]), "pos": 0})
            xa, xb = a.fields["items"][a.fields["pos"]:], b.fields["items"][b.fields["pos"]:]
            return Agg("Iter", {"items": [("tup", [x, y]) for x, y in zip(xa, xb)], "pos": 0})
        if re.match(r"^<.* as (iter::)?(traits::)?(iterator::)?Iterator>::next$", c):
            r = args[0]
            it = self.get(st, r.place) if isinstance(r, Ref) and r.place is not None else r
            if not (isinstance(it, Agg) and it.kind == "Iter"):
                raise Unsupported("next of %r" % (it,))
            pos = it.fields["pos"]
            if pos < len(it.fields["items"]):
                self.put(st, r.place, Agg("Iter", {"items": it.fields["items"], "pos": pos + 1}))
                return Agg("Option", {"disc": 1, "Some": {0: it.fields["items"][pos]}})
            return Agg("Option", {"disc": 0})
        if re.match(r"^<Result<.*> as (ops::)?(try_trait::)?Try>::branch$", c):
            r = args[0]
            return Agg("CF", {"cont": r.fields["ok"], "Continue": {0: r.fields.get("Ok", {0: Sym("?")})[0]},
                              "Break": {0: Agg("Result", {"ok": False, "Err": {0: r.fields.get("Err", {0: Sym("?")})[0]}})}})
        if re.match(r"^<Result<.*> as (ops::)?(try_trait::)?FromResidual<.*>>::from_residual$", c):
            r = args[0]
            return Agg("Result", {"ok": False, "Err": {0: r.fields["Err"][0]}})
        if re.match(r"^Result::<.*>::map_err::<", c):
            r = args[0]
            return Agg("Result", {"ok": r.fields["ok"], "Ok": r.fields.get("Ok", {0: Sym("?")}), "Err": {0: Sym("mapped(%r)" % (r.fields.get("Err", {0: "?"})[0],))}})
        if re.match(r"^Result::<.*>::(ok|err)$", c):
            r = args[0]
            ok = r.fields["ok"]
            if c.endswith("::err"):
                ok = (not ok) if isinstance(ok, bool) else z3.Not(ok)
                pay = r.fields.get("Err", {0: Sym("?")})
            else:
                pay = r.fields.get("Ok", {0: Sym("?")})
            return Agg("Option", {"disc": (1 if ok else 0) if isinstance(ok, bool) else z3.If(ok, bv(1), bv(0)), "Some": pay})
        if re.match(r"^Result::<.*>::(unwrap|expect|unwrap_or_default)$", c):
            r = args[0]
            ok = r.fields["ok"]
            if c.endswith("unwrap_or_default"):
                return r.fields.get("Ok", {0: Sym("?")})[0]
            if isinstance(ok, bool):
                if not ok:
                    path.panic = "unwrap of an Err"
                    return PANIC
            else:
                bad = z3.And(path.cond, z3.Not(ok))
                if self.feasible(bad):
                    np = self.fork(path)
                    np.cond = z3.simplify(bad)
                    np.panic = "unwrap / expect of a Result that may be Err"
                    self.paths.append(np)
                path.cond = z3.simplify(z3.And(path.cond, ok))
            return r.fields.get("Ok", {0: Sym("?")})[0]
        if re.match(r"^Option::<.*>::(is_some|is_none)$", c):
            o = args[0]
            if isinstance(o, Ref):
                o = self.get(st, o.place) if o.place is not None else o.value
            d = o.fields["disc"]
            some = (d == 1) if isinstance(d, int) else (d == bv(1))
            if c.endswith("is_some"):
                return some
            return (not some) if isinstance(some, bool) else z3.Not(some)
        if re.match(r"^Result::<.*>::(is_ok|is_err)$", c):
            r = args[0]
            if isinstance(r, Ref):
                r = self.get(st, r.place) if r.place is not None else r.value
            ok = r.fields["ok"]
            if c.endswith("is_ok"):
                return ok
            return (not ok) if isinstance(ok, bool) else z3.Not(ok)
        if re.match(r"^<.* as (clone::)?Clone>::clone$", c) or re.match(r"^<.* as (borrow::)?ToOwned>::to_owned$", c):
            a = args[0]
            return self.get(st, a.place) if isinstance(a, Ref) and a.place is not None else (a.value if isinstance(a, Ref) else a)
        if "fmt::" in c or c.startswith("format") or c.startswith("fmt::format") or name in ("must_use", "to_string", "format") or "Arguments" in c or "String" in c:
            return Sym("formatted")
        if name in ("panic", "panic_fmt", "panic_bounds_check", "begin_panic", "expect_failed", "unwrap_failed"):
            path.panic = "explicit panic " + callee
            return PANIC
        raise Unsupported("call to " + callee)


PANIC = object()
SOLVER = {"s": 0.0, "n": 0}


def _split_call(t):
    m = re.match(r"^(\S.*?) = (.*) -> \[return: (bb\d+), unwind.*\]$", t, re.S) or re.match(r"^(\S.*?) = (.*) -> unwind.*$", t, re.S)
    if not m:
        return None
    g = m.groups()
    dest, call = g[0], g[1]
    nxt = g[2] if len(g) > 2 else None
    if not call.endswith(")"):
        return None
    depth = 0
    for i in range(len(call) - 1, -1, -1):
        ch = call[i]
        if ch == ")":
            depth += 1
        elif ch == "(":
            depth -= 1
            if depth == 0:
                return dest, call[:i], call[i + 1:-1], nxt
    return None


# ---- specification --------------------------------------------------------------------------------
def struct_fields(src, name):
    m = re.search(r"pub struct %s\s*\{(.*?)\n\}" % name, src, re.S)
    if not m:
        raise Unsupported("struct %s not found in akd_core/src/types/mod.rs" % name)
    return re.findall(r"^\s*pub (\w+)\s*:", m.group(1), re.M)


def same(a, b):
    if z3.is_expr(a) and z3.is_expr(b):
        return a.eq(b)
    if isinstance(a, tuple) and isinstance(b, tuple) and len(a) == 2 and a[0] == "&" == b[0]:
        return same(a[1], b[1])
    if isinstance(a, Agg) and isinstance(b, Agg):
        return a is b or (getattr(a, "tag", None) is not None and getattr(a, "tag", None) == getattr(b, "tag", None))
    if isinstance(a, Sym) and isinstance(b, Sym):
        return a == b
    return False


def strip_refs(v):
    while isinstance(v, tuple) and len(v) == 2 and v[0] == "&":
        v = v[1]
    return v


def check_instance(func, closures, k, p, f, upd_fields, hist_fields):
    """-> (failures [(code, text, replay-hint)], stats)"""
    w = Walker(func, k, p, f, closures)
    st = w.initial(upd_fields, hist_fields)
    proof = st["_5"]
    ups = proof.fields[hist_fields.index("update_proofs")].fields["items"]
    hv = {n: proof.fields[i].fields["items"] for i, n in enumerate(hist_fields) if n != "update_proofs"}
    w.run(st)
    fails = []
    nq = 0

    def sat(*cs):
        nonlocal nq
        nq += 1
        s = z3.Solver()
        s.add(*cs)
        t0 = time.time()
        r = s.check() == z3.sat
        SOLVER["s"] += time.time() - t0
        return r, s

    inst = "k=%d p=%d f=%d" % (k, p, f)
    ok_paths = []
    for path in w.paths:
        if path.panic is not None:
            fails.append(("G7", "%s: panic reachable: %s" % (inst, path.panic), {"kind": "panic"}))
            continue
        r = path.ret
        if not (isinstance(r, Agg) and r.kind == "Result"):
            raise Unsupported("return value %r" % (r,))
        okv = r.fields["ok"]
        if isinstance(okv, bool):
            if not okv:
                continue
        else:
            path.cond = z3.And(path.cond, okv)
            if not sat(path.cond)[0]:
                continue
        ok_paths.append(path)
        ev = path.events

        def required_ok(e, code, what, hint):
            good, _ = sat(path.cond, z3.Not(e[2]))
            if good:
                fails.append((code, "%s: accepted although %s returned an error" % (inst, what), hint))

        # G1
        e1 = [e for e in ev if e[0] == "verify_with_history_params"]
        if len(e1) != 1:
            fails.append(("G1", "%s: accepted with %d calls of verify_with_history_params" % (inst, len(e1)), {"kind": "shape"}))
        else:
            a = e1[0][1]
            good = len(a) == 4 and same(strip_refs(a[0]), w.current_epoch) and same(strip_refs(a[1]), Sym("akd_label")) and strip_refs(a[2]) is not None
            hp = strip_refs(a[3]) if len(a) == 4 else None
            if not good or not isinstance(hp, Sym) or not hp.name.startswith("history_params@"):
                fails.append(("G1", "%s: verify_with_history_params called with unexpected arguments %r" % (inst, a), {"kind": "shape"}))
            else:
                wrong = z3.Not(w.allow) if hp.name.endswith("AllowMissingValues") else w.allow
                if sat(path.cond, wrong)[0]:
                    fails.append(("G1", "%s: history parameter taken from the wrong variant" % inst, {"kind": "shape"}))
            required_ok(e1[0], "G1", "verify_with_history_params", {"kind": "shape"})
        # G2 / G6
        eu = [e for e in ev if e[0] == "verify_single_update_proof"]
        if len(eu) != k:
            fails.append(("G2", "%s: accepted after verifying %d of the %d update proofs" % (inst, len(eu), k), {"kind": "update", "index": min(len(eu), k - 1), "k": k}))
        for j, e in enumerate(eu[:k]):
            a = e[1]
            good = len(a) == 5 and same(strip_refs(a[0]), Sym("root_hash")) and same(strip_refs(a[1]), Sym("vrf_public_key")) and same(strip_refs(a[2]), ups[j]) \
                and same(strip_refs(a[3]), Sym("akd_label")) and same(strip_refs(a[4]), st["_6"])
            if not good:
                fails.append(("G2", "%s: update proof %d verified with unexpected arguments (wrong proof, root hash, key, label or parameter)" % (inst, j), {"kind": "update", "index": j, "k": k}))
            required_ok(e, "G2", "verify_single_update_proof of update proof %d" % j, {"kind": "update", "index": j, "k": k})
        res = r.fields["Ok"][0]
        if not (isinstance(res, Agg) and res.kind == "Vec"):
            fails.append(("G6", "%s: returned value is not the results vector" % inst, {"kind": "results"}))
        else:
            items = res.fields["items"]
            want = [e[3] for e in eu[:k]]
            if len(items) != len(want) or any(not same(x, y) for x, y in zip(items, want)):
                fails.append(("G6", "%s: returned results %r are not the update results in order" % (inst, items), {"kind": "results", "k": k}))
        # G3
        for j in range(1, k):
            if sat(path.cond, z3.UGT(w.epochs[j], w.epochs[j - 1]))[0]:
                fails.append(("G3", "%s: accepted although update proof %d has a larger epoch than update proof %d" % (inst, j, j - 1), {"kind": "epoch_order", "index": j, "k": k}))
        # G4 / G5
        for code, fn, vers, vrfs, proofs, kind in (("G4", "verify_existence", w.past, hv["past_marker_vrf_proofs"], hv["existence_of_past_marker_proofs"], "past_marker"),
                                                   ("G5", "verify_nonexistence", w.future, hv["future_marker_vrf_proofs"], hv["non_existence_of_future_marker_proofs"], "future_marker")):
            es = [e for e in ev if e[0] == fn]
            for i in range(len(vers)):
                hit = None
                for e in es:
                    a = e[1]
                    if len(a) == 7 and same(strip_refs(a[0]), Sym("vrf_public_key")) and same(strip_refs(a[1]), Sym("root_hash")) and same(strip_refs(a[2]), Sym("akd_label")) \
                            and same(strip_refs(a[3]), Sym("VersionFreshness::Fresh")) and same(strip_refs(a[4]), vers[i]) and same(strip_refs(a[5]), vrfs[i]) and same(strip_refs(a[6]), proofs[i]):
                        hit = e
                        break
                hint = {"kind": kind, "index": i, "count": len(vers)}
                if hit is None:
                    fails.append((code, "%s: accepted without %s(.., Fresh, %s marker version %d, its VRF proof, its tree proof)" % (inst, fn, kind.split("_")[0], i), hint))
                else:
                    required_ok(hit, code, "%s of %s %d" % (fn, kind, i), hint)
    # G8
    if not ok_paths:
        fails.append(("G8", "%s: no accepting path at all" % inst, {"kind": "complete"}))
    else:
        all_events_ok = []
        # every event variable that exists on some path
        seen = {}
        for path in w.paths:
            for e in path.events:
                seen[str(e[2])] = e[2]
        mono = [z3.ULE(w.epochs[j], w.epochs[j - 1]) for j in range(1, k)]
        if sat(z3.And(*seen.values()) if seen else z3.BoolVal(True), *mono, z3.Not(z3.Or(*[pp.cond for pp in ok_paths])))[0]:
            fails.append(("G8", "%s: rejected although every ingredient verifies and the epochs are non-increasing" % inst, {"kind": "complete"}))
    return fails, {"paths": len(w.paths), "accepting_paths": len(ok_paths), "queries": nq, "steps": w.steps, "events": w.nevent}


def find_function(funcs):
    for n, f in funcs.items():
        if re.search(r"(^|::)key_history_verify$", n) and f.kind == "fn":
            return f
    return None


def instances(tier):
    if tier == "quick":
        ks, ps, fs = (1, 2, 3), (0, 1, 2), (0, 1, 2)
    else:
        ks, ps, fs = (1, 2, 3, 4), (0, 1, 2, 3), (0, 1, 2, 3)
    return list(itertools.product(ks, ps, fs))


def run_obligation(ob, tier, seed, funcs, repo="/repo"):
    t0 = time.time()
    f = find_function(funcs)
    if f is None:
        return {"engine": "mir", "verdict": "inconclusive", "reason": "key_history_verify not found in the MIR dump of akd_core", "wall_s": 0, "queries": 0}
    closures = {n: g for n, g in funcs.items() if n.startswith(f.name + "::{closure")}
    try:
        src = open(os.path.join(repo, "akd_core/src/types/mod.rs")).read()
        upd_fields = struct_fields(src, "UpdateProof")
        hist_fields = struct_fields(src, "HistoryProof")
        all_fails, stats, nq = [], [], 0
        for (k, p, ff) in instances(tier):
            fails, s = check_instance(f, closures, k, p, ff, upd_fields, hist_fields)
            nq += s["queries"]
            stats.append({"k": k, "p": p, "f": ff, **s})
            all_fails += fails
    except Unsupported as ex:
        return {"engine": "mir", "verdict": "inconclusive", "reason": "MIR construct outside the history-glue walker's fragment: %s" % ex, "wall_s": round(time.time() - t0, 2), "queries": 0}
    acc = sum(s["accepting_paths"] for s in stats)
    nq += SOLVER["n"]
    res = {"engine": "mir", "wall_s": round(time.time() - t0, 2), "queries": nq, "solver_s": round(SOLVER["s"], 2),
           "witness_ok": acc >= len(stats) and all(s["events"] >= 1 + s["k"] + s["p"] + s["f"] for s in stats),
           "witness": "%d instances, %d paths, %d accepting paths (each instance has one); every instance records >= 1+k+p+f events" % (len(stats), sum(s["paths"] for s in stats), acc),
           "extra": {"function": f.name, "mir_lines": f.src_lines, "instances": stats}}
    if all_fails:
        # one failure per code is enough for the report
        seen, uniq = set(), []
        for c, text, hint in all_fails:
            if c not in seen:
                seen.add(c)
                uniq.append((c, text, hint))
        res["verdict"] = "fail"
        res["reason"] = "; ".join("%s %s" % (c, t) for c, t, _ in uniq[:3])
        res["failures"] = [{"code": c, "text": t, "hint": h} for c, t, h in uniq]
    else:
        res["verdict"] = "pass"
        res["reason"] = "%d queries decided, G1-G8 hold on all %d instances" % (nq, len(stats))
    return res
