"""Engine M, sixth client: the commit step of a publish, `StorageManager::commit_transaction`
(akd/src/storage/manager/mod.rs), an `async fn` over the transaction log, the object cache and the
database. Its coroutine MIR is walked with the generic event walker (corowalk.py): the log's
`commit_transaction`, the cache's `enable_clean` / `batch_put` / `flush`, the database's
`batch_set` are events; the database write and the log return `Ok` or `Err` under fresh Booleans;
the cache is present or absent (symbolic); the record vector is empty or not and ends in an epoch
record or not (symbolic).

C10 kernel, decided by z3 over all paths:

  K1  the transaction log is drained (`Transaction::commit_transaction`) before anything else, on
      every path - so no transaction is left open whatever happens afterwards; if that fails the
      function returns its error and touches neither cache nor database
  K2  on every path on which the database write did not succeed (it returned Err, or was not
      reached), the records of this commit are not left in the object cache: either
      `TimedCache::batch_put` was not executed, or `TimedCache::flush` was executed after it
  K3  the function returns Ok only if the log was empty or the database write succeeded, and Err
      whenever the database write failed
  K4  what is written to the database is the vector the log returned, with state
      `TransactionCommit`; what is put into the cache is that same vector
"""
import re
import time

import z3

from . import corowalk
from .histglue import Agg, Sym, Unsupported


def _find(funcs):
    for n, f in funcs.items():
        if n.endswith("::commit_transaction::{closure#0}") and "manager::" in n:
            return f
    return None


def strip(v):
    while isinstance(v, tuple) and len(v) == 2 and v[0] == "&":
        v = v[1]
    return v


def run_obligation(ob, tier, seed, funcs):
    t0 = time.time()
    f = _find(funcs)
    if f is None:
        return {"engine": "mir", "verdict": "inconclusive", "reason": "coroutine body of StorageManager::commit_transaction not found in the MIR dump", "wall_s": 0, "queries": 0}
    try:
        w = corowalk.CoWalker(f)
        paths = w.run()
    except Unsupported as ex:
        return {"engine": "mir", "verdict": "inconclusive", "reason": "MIR construct outside the event walker's fragment: %s" % ex, "wall_s": round(time.time() - t0, 2), "queries": 0}
    nq = [0]
    solver_s = [0.0]

    def sat(*cs):
        nq[0] += 1
        s = z3.Solver()
        s.add(*cs)
        t1 = time.time()
        r = s.check() == z3.sat
        solver_s[0] += time.time() - t1
        return r

    fails = []
    seen_put = seen_write_fail = seen_ok = False
    for p in paths:
        if p.panic is not None:
            if "resumed after" in p.panic:
                continue
            fails.append("K0: a panic is reachable: %s" % p.panic)
            continue
        r = p.ret
        if not (isinstance(r, Agg) and r.kind == "Poll" and isinstance(r.fields.get("Ready", {}).get(0), Agg) and r.fields["Ready"][0].kind == "Result"):
            fails.append("K3: unexpected return value %r" % (r,))
            continue
        res = r.fields["Ready"][0]
        rok = res.fields["ok"]
        names = [e[0] for e in p.events]
        log_i = [i for i, n in enumerate(names) if n.endswith("Transaction::commit_transaction")]
        put_i = [i for i, n in enumerate(names) if n.endswith("TimedCache::batch_put")]
        flush_i = [i for i, n in enumerate(names) if n.endswith("TimedCache::flush")]
        db_i = [i for i, n in enumerate(names) if n.endswith("Database>::batch_set") or n.endswith("Database::batch_set")]
        # K1
        effects = [i for i, n in enumerate(names) if "TimedCache::" in n or "Database" in n]
        if not log_i:
            fails.append("K1: a path returns without draining the transaction log (transaction left open)")
        else:
            if effects and effects[0] < log_i[0]:
                fails.append("K1: cache or database touched before the transaction log is drained")
            lok = p.events[log_i[0]][2]
            if lok is not None and sat(p.cond, z3.Not(lok)) and [i for i in effects if i > log_i[0]]:
                fails.append("K1: cache or database touched although draining the log failed")
        # K2
        if put_i:
            seen_put = True
            last_put = put_i[-1]
            flushed_after = any(i > last_put for i in flush_i)
            wrote_ok = z3.BoolVal(False)
            if db_i:
                dok = p.events[db_i[-1]][2]
                wrote_ok = dok if dok is not None else z3.BoolVal(True)
            if not flushed_after and sat(p.cond, z3.Not(wrote_ok)):
                what = "the database write fails" if db_i else "the database write is not reached"
                fails.append("K2: the records of the commit stay in the object cache on a path on which %s" % what)
        # K3
        if db_i:
            dok = p.events[db_i[-1]][2]
            if dok is not None:
                if sat(p.cond, z3.Not(dok)):
                    seen_write_fail = True
                    if rok is True or (not isinstance(rok, bool) and sat(p.cond, z3.Not(dok), rok)):
                        fails.append("K3: returns Ok although the database write failed")
        if rok is True or (not isinstance(rok, bool) and sat(p.cond, rok)):
            seen_ok = True
            if not db_i:
                # allowed only for the empty log
                empties = [e for e in p.events if e[0].endswith("Vec::is_empty")]
                if not empties or sat(p.cond, z3.Not(empties[-1][3])):
                    fails.append("K3: returns Ok without writing a non-empty commit to the database")
        # K4
        if log_i and db_i:
            logres = p.events[log_i[0]][3]
            recs = logres.fields["Ok"][0] if isinstance(logres, Agg) else None
            a = p.events[db_i[-1]][1]
            if len(a) < 3 or not (isinstance(strip(a[1]), Sym) and strip(a[1]) == recs):
                fails.append("K4: the vector written to the database is not the one the transaction log returned (%r)" % (a[1:2],))
            elif not (isinstance(strip(a[2]), Sym) and strip(a[2]).name.endswith("TransactionCommit")):
                fails.append("K4: the database write is not flagged DbSetState::TransactionCommit (%r)" % (a[2],))
        if log_i and put_i:
            logres = p.events[log_i[0]][3]
            recs = logres.fields["Ok"][0] if isinstance(logres, Agg) else None
            a = p.events[put_i[-1]][1]
            if len(a) < 2 or not (isinstance(strip(a[1]), Sym) and strip(a[1]) == recs):
                fails.append("K4: the vector put into the cache is not the one the transaction log returned")
    uniq = []
    for x in fails:
        if x not in uniq:
            uniq.append(x)
    res = {"engine": "mir", "wall_s": round(time.time() - t0, 2), "queries": nq[0] + w.steps // 1000, "solver_s": round(solver_s[0], 2),
           "witness_ok": seen_put and seen_write_fail and seen_ok,
           "witness": "%d paths; a path puts the records into the cache: %s; a path on which the database write fails: %s; a path returning Ok: %s" % (len(paths), seen_put, seen_write_fail, seen_ok),
           "extra": {"function": f.name, "mir_lines": f.src_lines, "paths": len(paths)}}
    if uniq:
        res["verdict"] = "fail"
        res["reason"] = "; ".join(uniq[:3])
        res["failures"] = uniq
    else:
        res["verdict"] = "pass"
        res["reason"] = "%d queries decided over %d paths, K1-K4 hold" % (nq[0], len(paths))
    return res
