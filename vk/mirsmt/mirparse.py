"""Parser for the textual MIR printed by `rustc -Zunpretty=mir` (nightly).

Only what the bounded symbolic executor needs: function signatures, local declarations, basic
blocks with their statements and terminators, and `const` items (bodies without arguments).
Nothing here knows about akd; the functions to encode are looked up by name in the dump produced
from /repo's current sources on every run.
"""
import re


class Func:
    def __init__(self, name, args, ret, locals_, blocks, kind):
        self.name = name          # e.g. "get_marker_versions" or "MARKER_VERSION_SKIPLIST"
        self.args = args          # [(local, type)]
        self.ret = ret            # type string
        self.locals = locals_     # {local: type}
        self.blocks = blocks      # {bbN: Block}
        self.kind = kind          # 'fn' | 'const'
        self.src_lines = 0


class Block:
    def __init__(self, name, cleanup):
        self.name = name
        self.cleanup = cleanup
        self.stmts = []
        self.term = None


HEADER_FN = re.compile(r"^fn (.+?)\(((?:_\d+: .*)?)\) -> (.+) \{$")
HEADER_FN_UNIT = re.compile(r"^fn (.+?)\(((?:_\d+: .*)?)\) \{$")
HEADER_CONST = re.compile(r"^(?:const|static) (.+?): (.+) = \{$")
LOCAL = re.compile(r"^\s*let (?:mut )?(_\d+): (.+);$")
BB = re.compile(r"^\s*(bb\d+)( \(cleanup\))?: \{$")


def split_args(s):
    out, depth, cur = [], 0, ""
    for ch in s:
        if ch in "(<[{":
            depth += 1
        elif ch in ")>]}":
            depth -= 1
        if ch == "," and depth == 0:
            out.append(cur.strip())
            cur = ""
        else:
            cur += ch
    if cur.strip():
        out.append(cur.strip())
    return out


def parse(text):
    """Return {name: Func} for every fn/const item in the dump (last definition wins for
    duplicate short names; full paths are kept as printed)."""
    funcs = {}
    lines = text.split("\n")
    i = 0
    n = len(lines)
    while i < n:
        line = lines[i]
        m = HEADER_FN.match(line) or HEADER_FN_UNIT.match(line)
        mc = HEADER_CONST.match(line) if not m else None
        if not m and not mc:
            i += 1
            continue
        if m:
            name = m.group(1)
            args = []
            for a in split_args(m.group(2)):
                if not a:
                    continue
                loc, _, ty = a.partition(": ")
                args.append((loc.strip(), ty.strip()))
            ret = m.group(3) if m.re is HEADER_FN else "()"
            kind = "fn"
        else:
            name = mc.group(1)
            args = []
            ret = mc.group(2)
            kind = "const"
        start = i
        i += 1
        locals_ = {}
        blocks = {}
        cur = None
        depth = 1
        while i < n and depth > 0:
            l = lines[i]
            s = l.strip()
            mb = BB.match(l)
            if mb and cur is None:
                cur = Block(mb.group(1), bool(mb.group(2)))
                blocks[cur.name] = cur
                depth += 1
            elif s == "}" :
                depth -= 1
                if cur is not None and depth == 1:
                    if cur.stmts:
                        cur.term = cur.stmts.pop()
                    cur = None
            elif cur is not None:
                if s:
                    # statements may span lines only for string constants with newlines; the
                    # functions we encode do not have those
                    cur.stmts.append(s.rstrip(";") if s.endswith(";") else s)
            else:
                ml = LOCAL.match(l)
                if ml:
                    locals_[ml.group(1)] = ml.group(2)
                elif s.startswith("scope ") and s.endswith("{"):
                    depth += 1
                # debug lines and others ignored
            i += 1
        f = Func(name, args, ret, locals_, blocks, kind)
        f.src_lines = i - start
        for a, ty in args:
            f.locals[a] = ty
        f.locals["_0"] = locals_.get("_0", ret)
        funcs[name] = f
    return funcs
