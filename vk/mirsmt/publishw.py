"""Engine M, seventh client: the error handling of `Directory::publish` (akd/src/directory.rs).

The coroutine MIR of `publish` is walked with the generic event walker (corowalk.py): every callee
is an event returning a fresh value (`Result` under a fresh Boolean), loops are unrolled once
(their bodies - deriving the update set - are event sequences that do not touch the transaction),
logging is switched off. z3 decides over all paths:

  P1  (auxiliary, on `StorageManager::batch_set`) while a transaction is open, `batch_set` only
      appends to the transaction log and returns Ok - so the `?` after it in `publish` cannot leave
      the transaction open
  P2  no transaction is left open: on every returning path on which `begin_transaction` may have
      returned true, `commit_transaction` or `rollback_transaction` is called afterwards; on a path
      on which it returned false nothing is written, committed or rolled back
  P3  an error means "not committed": on every path on which `commit_transaction` may have
      returned Ok, `publish` returns Ok (nothing fallible happens after a successful commit)
  P4  nothing is inserted or written before the transaction is opened, and `publish` returns Ok
      only after a successful commit or when there is nothing to change

These are the "returns an error and ... has no transaction left open / reports the previous epoch"
clauses of C10 at the level of `publish`'s own control flow; what the callees do is outside
(commit step: C10.commit_step; transaction log: C10.txn_log).
"""
import re
import time

import z3

from . import corowalk
from .histglue import Agg, Unsupported

WRITES = ("Azks::batch_insert_nodes", "StorageManager::batch_set", "StorageManager::set", "StorageManager::commit_transaction", "StorageManager::rollback_transaction")


def _find(funcs, method, where):
    for n, f in funcs.items():
        if n.endswith("::%s::{closure#0}" % method) and where in n:
            return f
    return None


def ret_result(p):
    r = p.ret
    if isinstance(r, Agg) and r.kind == "Poll" and isinstance(r.fields.get("Ready", {}).get(0), Agg) and r.fields["Ready"][0].kind == "Result":
        return r.fields["Ready"][0]
    return None


def run_obligation(ob, tier, seed, funcs):
    t0 = time.time()
    fpub = _find(funcs, "publish", "directory::<impl at akd/src/directory.rs")
    fset = _find(funcs, "batch_set", "manager::<impl")
    if fpub is None or fset is None:
        return {"engine": "mir", "verdict": "inconclusive", "reason": "coroutine bodies of Directory::publish / StorageManager::batch_set not found in the MIR dump", "wall_s": 0, "queries": 0}
    nq = [0]
    solver_s = [0.0]

    def sat(*cs):
        nq[0] += 1
        s = z3.Solver()
        s.add(*cs)
        t1 = time.time()
        r = s.check() == z3.sat
        solver_s[0] += time.time() - t1
        return r

    fails = []
    try:
        # ---- P1 ---------------------------------------------------------------------------------
        ws = corowalk.CoWalker(fset)
        ws.loop_bound = 1
        in_txn_paths = 0
        for p in ws.run():
            if p.panic is not None and "resumed after" in p.panic:
                continue
            act = [e for e in p.events if e[0].endswith("is_transaction_active")]
            if not act or not z3.is_bool(act[0][3]) or not sat(p.cond, act[0][3]):
                continue
            in_txn_paths += 1
            res = ret_result(p)
            names = [e[0] for e in p.events]
            if res is None or res.fields["ok"] is not True and not (z3.is_bool(res.fields["ok"]) and not sat(p.cond, act[0][3], z3.Not(res.fields["ok"]))):
                fails.append("P1: StorageManager::batch_set can fail while a transaction is open")
            if any("Database" in n or "TimedCache::batch_put" in n for n in names):
                fails.append("P1: StorageManager::batch_set writes to the cache / database while a transaction is open")
            if not any(n.endswith("Transaction::batch_set") for n in names):
                fails.append("P1: StorageManager::batch_set does not log the records while a transaction is open")
        # ---- publish ------------------------------------------------------------------------------
        w = corowalk.CoWalker(fpub, max_steps=400000)
        w.loop_bound = 1
        paths = w.run()
    except Unsupported as ex:
        return {"engine": "mir", "verdict": "inconclusive", "reason": "MIR construct outside the event walker's fragment: %s" % ex, "wall_s": round(time.time() - t0, 2), "queries": 0}
    seen = {"committed_ok": 0, "rolled_back": 0, "refused_begin": 0, "nothing_to_do": 0}
    for p in paths:
        if p.panic is not None:
            if "resumed after" in p.panic:
                continue
            names = [e[0] for e in p.events]
            if any(n.endswith("begin_transaction") for n in names):
                fails.append("P2: a panic is reachable while the transaction is open: %s" % p.panic[:60])
            continue
        res = ret_result(p)
        if res is None:
            fails.append("P3: unexpected return value %r" % (p.ret,))
            continue
        rok = res.fields["ok"]
        ret_ok = z3.BoolVal(rok) if isinstance(rok, bool) else rok
        names = [e[0] for e in p.events]
        # StorageManager::batch_set inside the transaction cannot fail (P1): such paths are infeasible
        assume = []
        beg = [i for i, n in enumerate(names) if n.endswith("StorageManager::begin_transaction")]
        for i, n in enumerate(names):
            if n.endswith("StorageManager::batch_set") and beg and i > beg[0] and p.events[i][2] is not None:
                assume.append(p.events[i][2])
        if not sat(p.cond, *assume):
            continue
        writes = [i for i, n in enumerate(names) if any(n.endswith(x) for x in WRITES)]
        close = [i for i, n in enumerate(names) if n.endswith("StorageManager::commit_transaction") or n.endswith("StorageManager::rollback_transaction")]
        commits = [i for i, n in enumerate(names) if n.endswith("StorageManager::commit_transaction")]
        if not beg:
            if writes:
                fails.append("P4: %s is called although no transaction was opened" % names[writes[0]].split("::", 1)[-1])
            if sat(p.cond, ret_ok):
                seen["nothing_to_do"] += 1
        else:
            b = p.events[beg[0]][3]
            if any(i < beg[0] for i in writes):
                fails.append("P4: %s is called before the transaction is opened" % names[writes[0]].split("::", 1)[-1])
            if z3.is_bool(b) and sat(p.cond, *assume, b):
                if not any(i > beg[0] for i in close):
                    fails.append("P2: a path returns with the transaction still open (opened, neither committed nor rolled back)")
            if z3.is_bool(b) and sat(p.cond, *assume, z3.Not(b)):
                seen["refused_begin"] += 1
                if any(i > beg[0] for i in writes):
                    fails.append("P2: after begin_transaction was refused, %s is still called" % names[[i for i in writes if i > beg[0]][0]].split("::", 1)[-1])
                if sat(p.cond, *assume, z3.Not(b), ret_ok):
                    fails.append("P2: publish returns Ok although begin_transaction was refused")
        # P3
        for i in commits:
            cok = p.events[i][2]
            if cok is not None and sat(p.cond, *assume, cok, z3.Not(ret_ok)):
                later = [n.split("::", 1)[-1] for n in names[i + 1:] if not n.endswith("rollback_transaction")]
                fails.append("P3: publish returns an error although the commit succeeded (a fallible step follows the commit: %s)" % (", ".join(later[-2:]) or "-"))
            if cok is not None and sat(p.cond, *assume, cok, ret_ok):
                seen["committed_ok"] += 1
        if any(n.endswith("rollback_transaction") for n in names):
            seen["rolled_back"] += 1
        # P4: Ok without commit only when nothing was inserted
        if sat(p.cond, *assume, ret_ok) and not commits and any(n.endswith("Azks::batch_insert_nodes") for n in names):
            fails.append("P4: publish returns Ok after inserting nodes without committing")
    uniq = []
    for x in fails:
        if x not in uniq:
            uniq.append(x)
    res = {"engine": "mir", "wall_s": round(time.time() - t0, 2), "queries": nq[0], "solver_s": round(solver_s[0], 2),
           "witness_ok": in_txn_paths >= 1 and seen["committed_ok"] >= 1 and seen["rolled_back"] >= 1 and seen["refused_begin"] >= 1,
           "witness": "publish: %d paths (%d pruned by the loop bound), reached: %s; batch_set: %d in-transaction paths" % (len(paths), w.pruned, seen, in_txn_paths),
           "extra": {"function": fpub.name, "mir_lines": fpub.src_lines, "paths": len(paths), "loop_bound": w.loop_bound}}
    if uniq:
        res["verdict"] = "fail"
        res["reason"] = "; ".join(uniq[:3])
        res["failures"] = uniq
    else:
        res["verdict"] = "pass"
        res["reason"] = "%d queries decided over %d paths, P1-P4 hold" % (nq[0], len(paths))
    return res
