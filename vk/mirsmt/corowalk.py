"""Generic symbolic walker for rustc MIR bodies whose callees are treated as *events*.

Used for function bodies that Kani cannot execute (async coroutines over the storage layer). The
walker executes one body path by path:

  * places are kept in a store keyed by their canonical projection path; a place that was never
    written denotes an opaque value named after the place (so the coroutine's captured `self`, the
    fields reached through it and the discriminants of opaque options are consistent symbols);
  * every call that is not one of a small set of structural functions (`Try::branch`,
    `from_residual`, `into_future`, `Pin::new_unchecked`, `Deref::deref`, `Future::poll`,
    formatting) is an EVENT: it is recorded with its resolved arguments and returns a fresh value
    of the destination's type - for `Result` under a fresh Boolean `ok_<n>_<callee>`;
  * a call that returns a future only builds it; the event happens when the future is first
    polled, and every poll returns `Ready` (each await completes; a wrapper such as `tic_toc(fut)`
    is transparent);
  * integer / Boolean branches on symbolic values fork the path with a z3 feasibility check.

The result is the list of paths (events with their order, path condition, returned value) over
which the obligations of a client module are decided with z3.
"""
import re

import z3

from .histglue import Agg, Ref, Sym, Unsupported, _split_call, bv


def split_args(s):
    """split at top-level commas; string / byte-string literals are opaque"""
    out, depth, cur, q = [], 0, "", False
    i = 0
    while i < len(s):
        ch = s[i]
        if q:
            cur += ch
            if ch == "\\" and i + 1 < len(s):
                cur += s[i + 1]
                i += 1
            elif ch == '"':
                q = False
        elif ch == '"':
            q = True
            cur += ch
        elif ch in "(<[{":
            depth += 1
            cur += ch
        elif ch in ")>]}":
            depth -= 1
            cur += ch
        elif ch == "," and depth == 0:
            out.append(cur.strip())
            cur = ""
        else:
            cur += ch
        i += 1
    if cur.strip():
        out.append(cur.strip())
    return out

SKIP = ("StorageLive", "StorageDead", "nop", "FakeRead", "PlaceMention", "Retag", "Coverage", "AscribeUserType", "ConstEvalCounter")


def parse_place(s):
    """-> ('local', n) | ('deref', p) | ('field', p, k) | ('downcast', p, V) | ('index', p, i)"""
    s = s.strip()
    if re.match(r"^_\d+$", s):
        return ("local", s)
    if s.startswith("(*") and s.endswith(")"):
        return ("deref", parse_place(s[2:-1]))
    m = re.match(r"^(.*)\[(_\d+|\d+ of \d+)\]$", s)
    if m and not s.startswith("["):
        return ("index", parse_place(m.group(1)), m.group(2))
    if s.startswith("(") and s.endswith(")"):
        inner = s[1:-1]
        if inner.startswith("("):
            depth = 0
            for i, ch in enumerate(inner):
                if ch == "(":
                    depth += 1
                elif ch == ")":
                    depth -= 1
                    if depth == 0:
                        break
            base, rest = inner[:i + 1], inner[i + 1:]
        else:
            m = re.match(r"^(_\d+)(.*)$", inner, re.S)
            if not m:
                raise Unsupported("place " + s)
            base, rest = m.group(1), m.group(2)
        m = re.match(r"^ as ([\w#]+)$", rest)
        if m:
            return ("downcast", parse_place(base), m.group(1))
        m = re.match(r"^\.(\d+): ", rest)
        if m:
            return ("field", parse_place(base), int(m.group(1)))
    raise Unsupported("place " + s)


def show(p):
    k = p[0]
    if k == "local":
        return p[1]
    if k == "deref":
        return "*" + show(p[1])
    if k == "field":
        return "%s.%d" % (show(p[1]), p[2])
    if k == "downcast":
        return "%s@%s" % (show(p[1]), p[2])
    return "%s[%s]" % (show(p[1]), p[2])


def split_assign(s):
    """`place = rvalue` split at the first top-level ' = ' (types inside a place may contain ' = ')"""
    depth = 0
    for i, ch in enumerate(s):
        if ch in "(<[{":
            depth += 1
        elif ch in ")>]}":
            depth -= 1
        elif ch == " " and depth == 0 and s.startswith(" = ", i):
            return s[:i], s[i + 3:]
    return None, None


class Fut:
    def __init__(self, name, args):
        self.name = name
        self.args = args
        self.result = None

    def __repr__(self):
        return "Fut(%s)" % self.name


class Path:
    def __init__(self):
        self.events = []      # (name, args, okvar-or-None, result)
        self.visits = {}
        self.cond = z3.BoolVal(True)
        self.ret = None
        self.panic = None


def short(callee):
    c = callee.replace("std::", "").replace("core::", "").replace("alloc::", "")
    # drop turbofish / generic arguments
    out, depth = "", 0
    i = 0
    while i < len(c):
        if c.startswith("::<", i) and depth == 0:
            d, j = 0, i + 2
            while j < len(c):
                if c[j] == "<":
                    d += 1
                elif c[j] == ">":
                    d -= 1
                    if d == 0:
                        break
                j += 1
            i = j + 1
            continue
        out += c[i]
        i += 1
    return out


class CoWalker:
    def __init__(self, func, max_steps=20000):
        self.func = func
        self.paths = []
        self.nevent = 0
        self.steps = 0
        self.max_steps = max_steps
        self.loop_bound = 2
        self.pruned = 0
        self.named = {}

    # ---- symbols --------------------------------------------------------------------------------
    def zvar(self, name, sort="bv"):
        key = (name, sort)
        if key not in self.named:
            self.named[key] = z3.BitVec(name, 64) if sort == "bv" else z3.Bool(name)
        return self.named[key]

    # ---- store ----------------------------------------------------------------------------------
    def load(self, st, p):
        k = p[0]
        if k == "deref":
            r = self.load(st, p[1])
            if isinstance(r, Ref):
                return self.load(st, r.place) if r.place is not None else r.value
            if isinstance(r, Sym):
                key = "*" + r.name
                return st.get(key, Sym(key))
            raise Unsupported("deref of %r" % (r,))
        key = self.key(st, p)
        if key in st:
            return st[key]
        if k == "local":
            return Sym("init:" + p[1])
        if k == "field":
            if p[1][0] == "downcast":
                base = self.load(st, p[1][1])
                var = p[1][2]
                if isinstance(base, Agg) and var in base.fields:
                    pay = base.fields[var]
                    return pay[p[2]] if isinstance(pay, dict) else pay
                if isinstance(base, Sym):
                    return Sym("%s@%s.%d" % (base.name, var, p[2]))
                raise Unsupported("downcast %s of %r" % (var, base))
            base = self.load(st, p[1])
            if isinstance(base, Agg) and p[2] in base.fields:
                return base.fields[p[2]]
            if isinstance(base, tuple) and base[0] == "tup":
                return base[1][p[2]]
            if isinstance(base, Sym):
                return Sym("%s.%d" % (base.name, p[2]))
            raise Unsupported("field %d of %r" % (p[2], base))
        if k == "downcast":
            return self.load(st, p[1])
        raise Unsupported("place " + show(p))

    def key(self, st, p):
        """canonical key: dereferences of place-references are resolved to the referent's key"""
        k = p[0]
        if k == "local":
            return p[1]
        if k == "deref":
            r = self.load(st, p[1])
            if isinstance(r, Ref) and r.place is not None:
                return self.key(st, r.place)
            if isinstance(r, Sym):
                return "*" + r.name
            return "*" + self.key(st, p[1])
        if k == "field":
            return "%s.%d" % (self.key(st, p[1]), p[2])
        if k == "downcast":
            return "%s@%s" % (self.key(st, p[1]), p[2])
        return "%s[%s]" % (self.key(st, p[1]), p[2])

    def store(self, st, p, v):
        key = self.key(st, p)
        for k2 in [x for x in st if isinstance(x, str) and (x.startswith(key + ".") or x.startswith(key + "@"))]:
            del st[k2]
        st[key] = v

    # ---- operands / rvalues -----------------------------------------------------------------------
    def operand(self, st, s):
        s = s.strip()
        for pre in ("no_retag copy ", "copy ", "move "):
            if s.startswith(pre):
                return self.load(st, parse_place(s[len(pre):]))
        if s.startswith("const "):
            c = s[6:].strip()
            m = re.match(r"^(-?\d+)_(u64|usize|u32|isize|u8|u16|i32|i64)$", c)
            if m:
                return bv(int(m.group(1)))
            if c == "true":
                return True
            if c == "false":
                return False
            if c == "()":
                return Sym("()")
            return Sym("const " + c[:60])
        return self.load(st, parse_place(s))

    def rvalue(self, st, rv):
        rv = rv.strip()
        m = re.match(r"^(Gt|Lt|Ge|Le|Eq|Ne)\((.*)\)$", rv)
        if m:
            a, b = [self.operand(st, x) for x in split_args(m.group(2))]
            if isinstance(a, bool) and isinstance(b, bool):
                return {"Eq": a == b, "Ne": a != b}.get(m.group(1))
            if not (z3.is_bv(a) and z3.is_bv(b)):
                return self.zvar("cmp_%d" % len(self.named), "bool")
            return {"Gt": z3.UGT, "Lt": z3.ULT, "Ge": z3.UGE, "Le": z3.ULE, "Eq": lambda x, y: x == y, "Ne": lambda x, y: x != y}[m.group(1)](a, b)
        m = re.match(r"^(Add|Sub|Mul)WithOverflow\((.*)\)$", rv)
        if m:
            a, b = [self.operand(st, x) for x in split_args(m.group(2))]
            if not (z3.is_bv(a) and z3.is_bv(b)):
                return ("tup", [self.zvar("arith_%d" % len(self.named)), False])
            if m.group(1) == "Add":
                return ("tup", [a + b, z3.ULT(a + b, a)])
            if m.group(1) == "Sub":
                return ("tup", [a - b, z3.ULT(a, b)])
            return ("tup", [a * b, False])
        m = re.match(r"^(Add|Sub|Mul|BitAnd|BitOr)\((.*)\)$", rv)
        if m:
            a, b = [self.operand(st, x) for x in split_args(m.group(2))]
            if not (z3.is_bv(a) and z3.is_bv(b)):
                return self.zvar("arith_%d" % len(self.named))
            return {"Add": a + b, "Sub": a - b, "Mul": a * b, "BitAnd": a & b, "BitOr": a | b}[m.group(1)]
        m = re.match(r"^Not\((.*)\)$", rv)
        if m:
            a = self.operand(st, m.group(1))
            if isinstance(a, bool):
                return not a
            if z3.is_bool(a):
                return z3.Not(a)
            raise Unsupported("Not of %r" % (a,))
        m = re.match(r"^discriminant\((.*)\)$", rv)
        if m:
            return self.disc(self.load(st, parse_place(m.group(1))))
        m = re.match(r"^&(raw )?(mut |const )?(.*)$", rv)
        if m:
            return Ref(place=parse_place(m.group(3)))
        if re.match(r"^(?:std::option::)?Option::<.*>::None$", rv):
            return Agg("Option", {"disc": 0})
        m = re.match(r"^(?:std::option::)?Option::<.*?>::Some\((.*)\)$", rv)
        if m:
            return Agg("Option", {"disc": 1, "Some": {0: self.operand(st, m.group(1))}})
        m = re.match(r"^(?:std::result::)?Result::<.*>::(Ok|Err)\((.*)\)$", rv)
        if m:
            return Agg("Result", {"ok": m.group(1) == "Ok", m.group(1): {0: self.operand(st, m.group(2))}})
        m = re.match(r"^(?:std::task::)?Poll::<.*>::Ready\((.*)\)$", rv)
        if m:
            return Agg("Poll", {"disc": 0, "Ready": {0: self.operand(st, m.group(1))}})
        if re.match(r"^(?:std::task::)?Poll::<.*>::Pending$", rv):
            return Agg("Poll", {"disc": 1})
        if rv.startswith("{closure@") or rv.startswith("{async"):
            return Sym("closure")
        if rv.startswith("[") and rv.endswith("]"):
            return Sym("array")
        m = re.match(r"^(copy|move) (.*) as ([^()]+) \(.*\)$", rv)
        if m:
            return self.operand(st, m.group(1) + " " + m.group(2))
        if rv.startswith("(") and not rv.startswith("(*") and not re.match(r"^\((_\d+|\(.*\))(\.\d+: | as )", rv):
            inner = rv[1:-1].rstrip(",")
            return ("tup", [self.operand(st, x) for x in split_args(inner)] if inner.strip() else [])
        # generic enum / struct constructors
        m = re.match(r"^([\w:]+(?:<.*>)?)::(\w+)\((.*)\)$", rv)
        if m and not rv.startswith(("copy ", "move ", "const ")):
            return Agg("Ctor:" + m.group(1).split("::")[-1] + "::" + m.group(2), {i: self.operand(st, x) for i, x in enumerate(split_args(m.group(3)))})
        m = re.match(r"^([\w:]+(?:<.*>)?) \{(.*)\}$", rv)
        if m:
            return Agg("Struct:" + m.group(1).split("::")[-1], {i: self.operand(st, x.split(": ", 1)[1]) for i, x in enumerate(split_args(m.group(2))) if ": " in x})
        m = re.match(r"^([A-Z]\w*)\((.*)\)$", rv)
        if m:
            return Agg("Ctor:" + m.group(1), {i: self.operand(st, x) for i, x in enumerate(split_args(m.group(2)))})
        m = re.match(r"^([\w:]+)::(\w+)$", rv)
        if m and not re.match(r"^_\d+$", rv):
            return Sym(m.group(1).split("::")[-1] + "::" + m.group(2))
        return self.operand(st, rv)

    def disc(self, v):
        if isinstance(v, Agg):
            if v.kind in ("Option", "Poll"):
                return v.fields["disc"]
            if v.kind == "Result":
                ok = v.fields["ok"]
                return (0 if ok else 1) if isinstance(ok, bool) else z3.If(ok, bv(0), bv(1))
            if v.kind == "CF":
                c = v.fields["cont"]
                return (0 if c else 1) if isinstance(c, bool) else z3.If(c, bv(0), bv(1))
        if isinstance(v, Sym):
            return self.zvar("disc:" + v.name)
        raise Unsupported("discriminant of %r" % (v,))

    # ---- walking ----------------------------------------------------------------------------------
    def run(self, st=None):
        st = dict(st or {})
        self.walk("bb0", st, Path())
        return self.paths

    def fork(self, path):
        np = Path()
        np.events = list(path.events)
        np.visits = dict(path.visits)
        np.cond = path.cond
        return np

    def feasible(self, c):
        c = z3.simplify(c)
        if z3.is_false(c):
            return False
        if z3.is_true(c):
            return True
        s = z3.Solver()
        s.add(c)
        return s.check() != z3.unsat

    def walk(self, bb, st, path):
        while True:
            self.steps += 1
            if self.steps > self.max_steps:
                raise Unsupported("walk too long (a loop that does not terminate under the abstraction)")
            block = self.func.blocks[bb]
            path.visits[bb] = path.visits.get(bb, 0) + 1
            if path.visits[bb] > self.loop_bound + 1:
                self.pruned += 1      # bounded unrolling: this path iterates a loop more often than the bound
                return
            st = dict(st)
            for s in block.stmts:
                if s.startswith(SKIP):
                    continue
                m = re.match(r"^discriminant\((.*)\) = (\d+)$", s)
                if m:
                    self.store(st, ("field", parse_place(m.group(1)), 999), int(m.group(2)))
                    continue
                lhs, rhs = split_assign(s)
                if lhs is None:
                    raise Unsupported("statement " + s[:80])
                self.store(st, parse_place(lhs), self.rvalue(st, rhs))
            t = block.term
            if t == "return":
                path.ret = st.get("_0")
                path.final = st
                self.paths.append(path)
                return
            if t in ("unreachable", "resume") or t.startswith("resume"):
                return
            if t.startswith("goto -> "):
                bb = t[8:]
                continue
            if t.startswith("switchInt("):
                m = re.match(r"switchInt\((.*)\) -> \[(.*)\]$", t)
                if bb == "bb0" and re.match(r"^(move|copy) _\d+$", m.group(1)) and any(re.match(r"^_\d+ = discriminant\(\(\*_\d+\)\)$", s2) for s2 in block.stmts):
                    v = 0     # the coroutine is walked from its initial state
                else:
                    v = self.operand(st, m.group(1))
                arms = [x.strip().partition(": ") for x in m.group(2).split(",")]
                if isinstance(v, (bool, int)):
                    iv = int(v)
                    tgt = None
                    for kx, _, tg in arms:
                        if kx != "otherwise" and int(kx) == iv:
                            tgt = tg
                    if tgt is None:
                        tgt = [tg for kx, _, tg in arms if kx == "otherwise"][0]
                    bb = tgt
                    continue
                taken = []
                for kx, _, tg in arms:
                    if kx == "otherwise":
                        c = z3.And(*[z3.Not(x) for x in taken]) if taken else z3.BoolVal(True)
                    else:
                        c = (v if int(kx) else z3.Not(v)) if z3.is_bool(v) else (v == z3.BitVecVal(int(kx), v.size()))
                        taken.append(c)
                    if self.func.blocks[tg].term == "unreachable" and not self.func.blocks[tg].stmts:
                        continue
                    nc = z3.And(path.cond, c)
                    if not self.feasible(nc):
                        continue
                    np = self.fork(path)
                    np.cond = z3.simplify(nc)
                    self.walk(tg, st, np)
                return
            if t.startswith("assert("):
                m = re.match(r"assert\((!?)(.*?), \"(.*)\".*-> \[success: (bb\d+), unwind.*\]$", t, re.S)
                c = self.operand(st, m.group(2))
                if m.group(1):
                    c = z3.Not(c) if not isinstance(c, bool) else (not c)
                if isinstance(c, bool):
                    if not c:
                        path.panic = m.group(3)
                        self.paths.append(path)
                        return
                else:
                    bad = z3.And(path.cond, z3.Not(c))
                    if self.feasible(bad):
                        np = self.fork(path)
                        np.cond = z3.simplify(bad)
                        np.panic = m.group(3)
                        self.paths.append(np)
                    path.cond = z3.simplify(z3.And(path.cond, c))
                bb = m.group(4)
                continue
            if t.startswith("drop("):
                bb = re.search(r"return: (bb\d+)", t).group(1)
                continue
            sc = _split_call(t)
            if sc:
                dest, callee, argstr, nxt = sc
                args = [self.operand(st, a) for a in split_args(argstr)]
                dplace = parse_place(dest)
                dty = self.func.locals.get(dest.strip(), "") if dplace[0] == "local" else self.type_of_place(dest)
                r = self.call(st, callee, args, path, dty)
                if nxt is None or r is DIVERGE:
                    if r is DIVERGE:
                        path.panic = "diverging call " + short(callee)
                        self.paths.append(path)
                    return
                self.store(st, dplace, r)
                bb = nxt
                continue
            if re.search(r"\) -> (unwind |bb\d+$)", t):
                path.panic = "diverging call"
                self.paths.append(path)
                return
            raise Unsupported("terminator " + t[:100])

    def type_of_place(self, dest):
        m = re.search(r": (.*)\)$", dest.strip())
        return m.group(1) if m else ""

    # ---- calls --------------------------------------------------------------------------------------
    def deep(self, st, v, depth=0):
        if isinstance(v, Ref) and depth < 8:
            inner = self.load(st, v.place) if v.place is not None else v.value
            return ("&", self.deep(st, inner, depth + 1))
        return v

    def fresh_result(self, name, ty, path, args):
        """a fresh value of type `ty` for event `name`"""
        self.nevent += 1
        n = self.nevent
        ty = ty.strip()
        tag = re.sub(r"[^A-Za-z0-9_]", "_", name)[-40:]
        if re.match(r"^(std::result::)?Result<", ty):
            ok = z3.Bool("ok_%d_%s" % (n, tag))
            res = Agg("Result", {"ok": ok, "Ok": {0: Sym("ok_value_%d_%s" % (n, tag))}, "Err": {0: Sym("error_%d_%s" % (n, tag))}})
            path.events.append((name, args, ok, res))
            return res
        if ty == "bool":
            b = z3.Bool("ret_%d_%s" % (n, tag))
            path.events.append((name, args, None, b))
            return b
        if ty in ("u64", "usize", "u32", "u8"):
            x = z3.BitVec("ret_%d_%s" % (n, tag), 64)
            path.events.append((name, args, None, x))
            return x
        if re.match(r"^(std::option::)?Option<", ty):
            d = z3.BitVec("some_%d_%s" % (n, tag), 64)
            res = Agg("Option", {"disc": d, "Some": {0: Sym("some_value_%d_%s" % (n, tag))}})
            path.events.append((name, args, None, res))
            path.cond = z3.And(path.cond, z3.ULE(d, bv(1)))
            return res
        res = Sym("()") if ty == "()" else Sym("ret_%d_%s" % (n, tag))
        path.events.append((name, args, None, res))
        return res

    def call(self, st, callee, args, path, dty):
        c = callee.replace("std::", "").replace("core::", "").replace("alloc::", "")
        name = short(callee)
        if re.match(r"^<.* as (ops::)?(try_trait::)?Try>::branch$", c):
            r = args[0]
            if isinstance(r, Agg) and r.kind == "Result":
                return Agg("CF", {"cont": r.fields["ok"], "Continue": {0: r.fields.get("Ok", {0: Sym("?")})[0]},
                                  "Break": {0: Agg("Result", {"ok": False, "Err": {0: r.fields.get("Err", {0: Sym("?")})[0]}})}})
            if isinstance(r, Agg) and r.kind == "Option":
                d = r.fields["disc"]
                cont = (d == 1) if isinstance(d, int) else (d == bv(1))
                return Agg("CF", {"cont": cont, "Continue": {0: r.fields.get("Some", {0: Sym("?")})[0]}, "Break": {0: Agg("Option", {"disc": 0})}})
            raise Unsupported("Try::branch of %r" % (r,))
        if re.match(r"^<.* as (ops::)?(try_trait::)?FromResidual<.*>>::from_residual$", c):
            r = args[0]
            if isinstance(r, Agg) and r.kind == "Result":
                return Agg("Result", {"ok": False, "Err": {0: r.fields["Err"][0]}})
            if isinstance(r, Agg) and r.kind == "Option":
                return Agg("Option", {"disc": 0})
            raise Unsupported("from_residual of %r" % (r,))
        if re.match(r"^<.* as (future::)?(into_future::)?IntoFuture>::into_future$", c) or re.match(r"^(pin::)?Pin::<.*>::new_unchecked$", c) \
                or re.match(r"^<.* as (ops::)?(deref::)?(Deref|DerefMut)>::(deref|deref_mut)$", c) or re.match(r"^(pin::)?Pin::<.*>::(as_mut|get_mut|new)$", c) \
                or name.endswith("must_use") or re.match(r"^<.* as (convert::)?(From|Into)<.*>>::(from|into)$", c) and False:
            return args[0]
        if re.match(r"^<.* as (future::)?(future::)?Future>::poll$", c):
            f = args[0]
            while isinstance(f, Ref):
                f = self.load(st, f.place) if f.place is not None else f.value
            if not isinstance(f, Fut):
                raise Unsupported("poll of %r" % (f,))
            if f.result is None:
                m = re.match(r"^(?:std::task::)?Poll<(.*)>$", dty.strip())
                f.result = self.fresh_result(f.name, m.group(1) if m else "", path, f.args)
            return Agg("Poll", {"disc": 0, "Ready": {0: f.result}})
        if "fmt::" in c or c.startswith("format") or c.startswith("fmt::format") or "Arguments" in c or name.endswith("to_string") or name.endswith("::format"):
            return Sym("formatted")
        if re.match(r"^(panicking::)?(panic|panic_fmt|panic_bounds_check|begin_panic|assert_failed)", name.split("::")[-1]) or "panicking::" in c:
            return DIVERGE
        if re.match(r"^<(log::)?Level as (cmp::)?PartialOrd<(log::)?LevelFilter>>::(le|lt|ge|gt)$", c) or name.endswith("log::max_level") or name == "max_level":
            return False if dty.strip() == "bool" else Sym("log-level")     # logging is switched off: it has no effect on the state
        dargs = [self.deep(st, a) for a in args]
        # a call that returns a future only builds it
        if re.match(r"^\{async (fn body|block)", dty.strip()) or "dyn Future" in dty or "dyn std::future::Future" in dty or "impl Future" in dty:
            inner = [a for a in args if isinstance(a, Fut)]
            if inner:
                return inner[0]       # a wrapper around an existing future (e.g. a timing helper) is transparent
            return Fut(name, dargs)
        return self.fresh_result(name, dty, path, dargs)


DIVERGE = object()
