"""Engine M, fifth client: how often a read request reads the epoch (Azks) record.

C13: an answer is never stitched together from two epochs. In `akd::directory::Directory` every
read request is an `async fn`; what it serves is determined by the `Azks` record it reads (the
record holds the epoch; tree nodes are then fetched "as of" that epoch). If a request reads the
record twice, a publish that lands between the two reads makes the two halves of the answer
belong to different epochs. The obligation therefore is

  R1  on every control-flow path of a request (get_epoch_hash, lookup, batch_lookup, key_history,
      audit - and the ReadOnlyDirectory wrappers), the epoch record is read at most once.

Encoding (data-abstracted bounded model checking of the real code): the MIR of every coroutine
body of the akd crate is turned into its control-flow graph (unwind / cleanup edges dropped; a
suspension `discriminant = N; return Pending` is connected to the resume target of state N, i.e.
every await completes eventually). Branch conditions are abstracted away: every edge may be
taken - an over-approximation of the feasible paths, so "at most once" is sound, and a reported
path may be infeasible (it is therefore confirmed natively before it is reported). A base read is
a call of `StorageManager::{get, get_direct}::<Azks>`; a call that constructs the future of another
async fn of the crate contributes that function's own maximum (futures are awaited exactly once
where they are built in this code base: `.await` desugaring). The query "is (exit, count >= 2)
reachable from (entry, 0)" is a Horn-clause reachability problem over (block, count) and is
decided by z3's fixedpoint engine; loops need no unrolling bound.

Counterexamples are confirmed by `native_stitch` (native_hist crate): for every epoch-record read
a request makes, a schedule in which a second instance publishes exactly during that read, against
the real code; a request whose answer then fails to verify against the (epoch, root hash) it names
reproduces the violation.
"""
import os
import re
import time

import z3

from .histglue import _split_call

READ_RE = re.compile(r"StorageManager::<[^>]*>::(get|get_direct)::<(append_only_zks::)?Azks>$")
REQUESTS = ("get_epoch_hash", "lookup", "batch_lookup", "key_history", "audit")


class Unsupported(Exception):
    pass


def index_async_fns(funcs):
    """(Type, method) -> name of the coroutine body, from the wrapper fns' return types"""
    idx = {}
    for n, f in funcs.items():
        m = re.match(r"^\{async fn body of (?:[\w:]*::)?(\w+)(?:<.*>)?::(\w+)(?:<.*>)?\(\)\}$", f.ret.strip())
        if m and (n + "::{closure#0}") in funcs:
            idx.setdefault((m.group(1), m.group(2)), []).append(n + "::{closure#0}")
    return idx


def callee_key(callee):
    c = callee.replace("std::", "").replace("core::", "")
    m = re.match(r"^(?:[\w:]*::)?(\w+)::<.*?>::(\w+)(?:::<.*>)?$", c) or re.match(r"^(?:[\w:]*::)?(\w+)::(\w+)(?:::<.*>)?$", c)
    if m:
        return (m.group(1), m.group(2))
    return None


def cfg_of(f):
    """-> (edges {bb: [(bb', call or None)]}, exits [bb]) without cleanup blocks / unwind edges"""
    resume = {}
    b0 = f.blocks.get("bb0")
    if b0 is not None and b0.term and b0.term.startswith("switchInt("):
        m = re.match(r"switchInt\((.*)\) -> \[(.*)\]$", b0.term)
        for arm in m.group(2).split(","):
            k, _, tg = arm.strip().partition(": ")
            if k != "otherwise":
                resume[int(k)] = tg
    edges, exits = {}, []
    for name, b in f.blocks.items():
        if b.cleanup:
            continue
        t = b.term or ""
        out = []
        if t == "return":
            state = None
            for s in b.stmts:
                m = re.match(r"^discriminant\(\(\*_\d+\)\) = (\d+)$", s)
                if m:
                    state = int(m.group(1))
            if state is not None and state >= 3 and state in resume:
                out.append((resume[state], None))      # suspended: continues at the resume point
            else:
                exits.append(name)
        elif t.startswith("goto -> "):
            out.append((t[8:], None))
        elif t.startswith("switchInt("):
            m = re.match(r"switchInt\((.*)\) -> \[(.*)\]$", t)
            for arm in m.group(2).split(","):
                k, _, tg = arm.strip().partition(": ")
                out.append((tg, None))
        elif t.startswith("assert("):
            m = re.search(r"success: (bb\d+)", t)
            if not re.match(r"assert\(const false", t):
                out.append((m.group(1), None))
        elif t.startswith("drop("):
            out.append((re.search(r"return: (bb\d+)", t).group(1), None))
        elif t in ("unreachable", "resume") or t.startswith("resume") or t.startswith("unreachable"):
            pass
        else:
            sc = _split_call(t)
            if sc:
                dest, callee, argstr, nxt = sc
                if nxt is not None:
                    out.append((nxt, callee))
            elif re.search(r"-> \[return: (bb\d+)", t):
                out.append((re.search(r"-> \[return: (bb\d+)", t).group(1), None))
            elif re.search(r"\) -> unwind (continue|unreachable|terminate)", t) or re.search(r"\) -> bb\d+$", t):
                pass      # diverging call (panic helpers; `-> bbN` is its unwind target): no normal successor
            else:
                raise Unsupported("terminator " + t[:80])
        edges[name] = [(tg, c) for tg, c in out if tg in f.blocks and not f.blocks[tg].cleanup]
    return edges, exits


class Analysis:
    def __init__(self, funcs):
        self.funcs = funcs
        self.idx = index_async_fns(funcs)
        self.memo = {}
        self.stack = []
        self.queries = 0
        self.solver_s = 0.0
        self.sites = {}      # function -> [(block, description, weight)]

    def weight(self, callee):
        c = callee.replace("std::", "").replace("core::", "")
        if READ_RE.search(c):
            return 1, "epoch record read: " + c
        key = callee_key(callee)
        if key and key in self.idx:
            w = 0
            for body in self.idx[key]:
                w = max(w, self.max_reads(body))
            return w, "%s::%s (reads the epoch record %s)" % (key[0], key[1], {0: "never", 1: "once", 2: "more than once"}[w])
        return 0, None

    def max_reads(self, name):
        """max number (capped at 2) of epoch-record reads on a path entry -> exit of coroutine `name`"""
        if name in self.memo:
            return self.memo[name]
        if name in self.stack:
            return 0   # recursive async fns (boxed) : their recursive call adds nothing new for a cap of 2 unless they read at all
        self.stack.append(name)
        f = self.funcs[name]
        edges, exits = cfg_of(f)
        ids = {b: i for i, b in enumerate(sorted(f.blocks))}
        weighted, sites = [], []
        for b, outs in edges.items():
            for tg, callee in outs:
                w, desc = (0, None) if callee is None else self.weight(callee)
                weighted.append((b, tg, w))
                if w:
                    sites.append((b, desc, w))
        self.sites[name] = sites
        self.stack.pop()
        result = 0
        for target in (2, 1):
            if self.reach(ids, weighted, exits, target):
                result = target
                break
        self.memo[name] = result
        return result

    def reach(self, ids, weighted, exits, target):
        """z3 fixedpoint: is (exit, count == target (capped)) reachable from (bb0, 0)?"""
        if not exits:
            return False
        t0 = time.time()
        fp = z3.Fixedpoint()
        fp.set(engine="datalog")
        B, C = z3.BitVecSort(16), z3.BitVecSort(2)
        reach = z3.Function("Reach", B, C, z3.BoolSort())
        fp.register_relation(reach)
        b, c = z3.Const("b", B), z3.Const("c", C)
        fp.declare_var(b, c)
        fp.fact(reach(z3.BitVecVal(ids["bb0"], 16), z3.BitVecVal(0, 2)))
        for src, tg, w in weighted:
            for cv in (0, 1, 2):
                nv = min(2, cv + w)
                fp.rule(reach(z3.BitVecVal(ids[tg], 16), z3.BitVecVal(nv, 2)), [reach(z3.BitVecVal(ids[src], 16), z3.BitVecVal(cv, 2))])
        q = z3.Or(*[reach(z3.BitVecVal(ids[e], 16), z3.BitVecVal(target, 2)) for e in exits])
        r = fp.query(q)
        self.queries += 1
        self.solver_s += time.time() - t0
        return r == z3.sat

    def witness(self, name):
        """a path with two reads, as the list of read sites in order (plain graph search, for the report only)"""
        f = self.funcs[name]
        edges, exits = cfg_of(f)
        from collections import deque
        start = ("bb0", 0)
        prev = {start: None}
        dq = deque([start])
        goal = None
        while dq:
            b, c = dq.popleft()
            if b in exits and c >= 2:
                goal = (b, c)
                break
            for tg, callee in edges.get(b, []):
                w, desc = (0, None) if callee is None else self.weight(callee)
                nxt = (tg, min(2, c + w))
                if nxt not in prev:
                    prev[nxt] = ((b, c), desc if w else None, b)
                    dq.append(nxt)
        out = []
        cur = goal
        while cur and prev[cur]:
            p, desc, blk = prev[cur]
            if desc:
                out.append("%s: %s" % (blk, desc))
            cur = p
        return list(reversed(out))


def run_obligation(ob, tier, seed, funcs):
    t0 = time.time()
    try:
        an = Analysis(funcs)
        results, fails = {}, []
        for (ty, m), bodies in sorted(an.idx.items()):
            if ty in ("Directory", "ReadOnlyDirectory") and m in REQUESTS:
                for body in bodies:
                    r = an.max_reads(body)
                    results["%s::%s" % (ty, m)] = r
                    if r >= 2:
                        fails.append((ty, m, an.witness(body)))
        base = sum(1 for n, s in an.sites.items() for x in s if x[1] and x[1].startswith("epoch record read"))
    except Unsupported as ex:
        return {"engine": "mir", "verdict": "inconclusive", "reason": "MIR construct outside the CFG builder's fragment: %s" % ex, "wall_s": round(time.time() - t0, 2), "queries": 0}
    need = {"Directory::" + m for m in REQUESTS}
    missing = sorted(need - set(results))
    if missing:
        return {"engine": "mir", "verdict": "inconclusive", "reason": "request entry points not found in the MIR dump: %s" % ", ".join(missing), "wall_s": round(time.time() - t0, 2), "queries": an.queries}
    res = {"engine": "mir", "wall_s": round(time.time() - t0, 2), "queries": an.queries, "solver_s": round(an.solver_s, 2),
           "witness_ok": all(results["Directory::" + m] >= 1 for m in REQUESTS) and base >= 1,
           "witness": "every request reaches an epoch-record read (count >= 1 is reachable): %s; %d base read sites, %d coroutine bodies analysed" % (results, base, len(an.memo)),
           "extra": {"max_reads": results, "analysed": len(an.memo)}}
    if fails:
        res["verdict"] = "fail"
        res["reason"] = "; ".join("%s::%s can read the epoch record more than once on one path (%s)" % (ty, m, " -> ".join(wit)) for ty, m, wit in fails[:3])
        res["failures"] = [{"request": "%s::%s" % (ty, m), "reads": wit} for ty, m, wit in fails]
    else:
        res["verdict"] = "pass"
        res["reason"] = "%d fixedpoint queries: every request reads the epoch record at most once on every path" % an.queries
    return res
