"""Engine M, eighth client: the storage manager's read / write paths around the object cache
(akd/src/storage/manager/mod.rs: `set`, `batch_set`, `get`, `get_from_cache_only`, `flush_cache`).

C16 ("the object cache never changes what a read returns") is about `TimedCache` (DashMap, locks,
clock) and is out of reach as a whole; what IS decidable is the manager's discipline around it,
with the cache, the transaction log and the database as event sources (corowalk.py):

  S1  inside a transaction `set` / `batch_set` only append to the transaction log and return Ok
  S2  outside a transaction, on every path on which the database write does not succeed the
      written record(s) are not left in the cache (not put, or the cache is flushed afterwards),
      and the call returns Err exactly when the database write failed; an empty batch is a no-op
  S3  the cache is given exactly the record(s) given to the database
  G1  `get_from_cache_only`: the transaction log is consulted first (only when a transaction is
      open), then the cache; the record found is returned unchanged; otherwise None
  G2  `get`: a record found by G1 is returned without touching the database; otherwise the
      database is read for the same key: Ok(r) => r is returned and it is r that is put into the
      cache; Err => the error is returned and nothing is put into the cache
  F1  `flush_cache` flushes the cache whenever there is one

  G3  `batch_get`: the cache is written only with the vector a successful database read returned
      (never with records served from the transaction log or the cache), and a failed database
      read is returned as an error (loop bodies executed at most once; which keys are asked of the
      database - the hash-set bookkeeping - is not decided)

`TimedCache` itself is outside this kernel.
"""
import time

import z3

from . import corowalk
from .histglue import Agg, Sym, Unsupported


def _body(funcs, method):
    for n, f in funcs.items():
        if n.endswith("::%s::{closure#0}" % method) and "manager::<impl" in n:
            return f
    return None


def strip(v):
    while isinstance(v, tuple) and len(v) == 2 and v[0] == "&":
        v = v[1]
    return v


def ready(p):
    r = p.ret
    if isinstance(r, Agg) and r.kind == "Poll" and "Ready" in r.fields:
        return r.fields["Ready"][0]
    return None


def run_obligation(ob, tier, seed, funcs):
    t0 = time.time()
    nq = [0]
    solver_s = [0.0]

    def sat(*cs):
        nq[0] += 1
        s = z3.Solver()
        s.add(*cs)
        t1 = time.time()
        r = s.check() == z3.sat
        solver_s[0] += time.time() - t1
        return r

    fails = []
    stats = {}
    try:
        # ---- writes -------------------------------------------------------------------------------
        for meth, dbfn, putfn, logfn in (("set", "Database>::set", "TimedCache::put", "Transaction::set"), ("batch_set", "Database>::batch_set", "TimedCache::batch_put", "Transaction::batch_set")):
            f = _body(funcs, meth)
            if f is None:
                return {"engine": "mir", "verdict": "inconclusive", "reason": "StorageManager::%s not found in the MIR dump" % meth, "wall_s": 0, "queries": 0}
            w = corowalk.CoWalker(f)
            w.loop_bound = 1
            paths = [p for p in w.run() if not (p.panic and "resumed after" in p.panic)]
            stats[meth] = len(paths)
            saw_fail = saw_txn = False
            for p in paths:
                if p.panic:
                    fails.append("S2: %s can panic: %s" % (meth, p.panic[:60]))
                    continue
                res = ready(p)
                if not (isinstance(res, Agg) and res.kind == "Result"):
                    fails.append("S2: %s returns %r" % (meth, p.ret))
                    continue
                rok = res.fields["ok"]
                ret_ok = z3.BoolVal(rok) if isinstance(rok, bool) else rok
                names = [e[0] for e in p.events]
                act = [e for e in p.events if e[0].endswith("is_transaction_active")]
                db_i = [i for i, n in enumerate(names) if n.endswith(dbfn)]
                put_i = [i for i, n in enumerate(names) if n.endswith("TimedCache::put") or n.endswith("TimedCache::batch_put")]
                flush_i = [i for i, n in enumerate(names) if n.endswith("TimedCache::flush")]
                log_i = [i for i, n in enumerate(names) if n.endswith(logfn)]
                in_txn = act and z3.is_bool(act[0][3]) and not sat(p.cond, z3.Not(act[0][3]))
                if in_txn:
                    saw_txn = True
                    if db_i or put_i:
                        fails.append("S1: %s touches the cache / database inside a transaction" % meth)
                    if not log_i:
                        fails.append("S1: %s does not log the record inside a transaction" % meth)
                    if sat(p.cond, z3.Not(ret_ok)):
                        fails.append("S1: %s can fail inside a transaction" % meth)
                    continue
                if log_i:
                    fails.append("S1: %s writes to the transaction log although no transaction is open" % meth)
                if not db_i:
                    # allowed: the empty batch
                    empties = [e for e in p.events if e[0].endswith("Vec::is_empty")]
                    if not (empties and not sat(p.cond, z3.Not(empties[0][3]))):
                        fails.append("S2: %s returns without writing to the database" % meth)
                    elif put_i:
                        fails.append("S2: %s caches records it never writes" % meth)
                    continue
                dok = p.events[db_i[-1]][2]
                if dok is None:
                    fails.append("S2: the database write of %s has no result" % meth)
                    continue
                if sat(p.cond, z3.Not(dok)):
                    saw_fail = True
                    if put_i and not any(i > put_i[-1] for i in flush_i):
                        fails.append("S2: a record the database rejected stays in the object cache (%s)" % meth)
                    if sat(p.cond, z3.Not(dok), ret_ok):
                        fails.append("S2: %s returns Ok although the database write failed" % meth)
                if sat(p.cond, dok, z3.Not(ret_ok)):
                    fails.append("S2: %s returns Err although the database write succeeded" % meth)
                # S3
                if put_i:
                    a_db = strip(p.events[db_i[-1]][1][1]) if len(p.events[db_i[-1]][1]) > 1 else None
                    a_put = strip(p.events[put_i[-1]][1][1]) if len(p.events[put_i[-1]][1]) > 1 else None
                    if not (isinstance(a_db, Sym) and isinstance(a_put, Sym) and a_db == a_put):
                        fails.append("S3: %s gives the cache (%r) something else than the database (%r)" % (meth, a_put, a_db))
            if not saw_fail or not saw_txn:
                fails.append("witness: %s has no failing-write path or no in-transaction path (walker too coarse)" % meth)
        # ---- get_from_cache_only ------------------------------------------------------------------
        f = _body(funcs, "get_from_cache_only")
        if f is None:
            return {"engine": "mir", "verdict": "inconclusive", "reason": "StorageManager::get_from_cache_only not found in the MIR dump", "wall_s": 0, "queries": 0}
        w = corowalk.CoWalker(f)
        paths = [p for p in w.run() if not (p.panic and "resumed after" in p.panic)]
        stats["get_from_cache_only"] = len(paths)
        for p in paths:
            res = ready(p)
            names = [e[0] for e in p.events]
            act = [e for e in p.events if e[0].endswith("is_transaction_active")]
            tx_i = [i for i, n in enumerate(names) if n.endswith("Transaction::get")]
            hit_i = [i for i, n in enumerate(names) if n.endswith("TimedCache::hit_test")]
            if not (isinstance(res, Agg) and res.kind == "Option"):
                fails.append("G1: get_from_cache_only returns %r" % (p.ret,))
                continue
            if tx_i and hit_i and hit_i[0] < tx_i[0]:
                fails.append("G1: the cache is consulted before the transaction log")
            if tx_i and act and z3.is_bool(act[0][3]) and sat(p.cond, z3.Not(act[0][3])):
                fails.append("G1: the transaction log is read although no transaction is open")
            if not tx_i and act and z3.is_bool(act[0][3]) and sat(p.cond, act[0][3]):
                fails.append("G1: a transaction is open but its log is not consulted")
            if any("Database" in n for n in names):
                fails.append("G1: get_from_cache_only reads the database")
            d = res.fields["disc"]
            some = (d == 1) if isinstance(d, int) else None
            if some is True:
                val = res.fields["Some"][0]
                srcs = []
                for i in tx_i + hit_i:
                    r = p.events[i][3]
                    if isinstance(r, Agg) and r.kind == "Option" and r.fields.get("Some", {}).get(0) == val:
                        srcs.append(i)
                if not srcs:
                    fails.append("G1: the record returned is neither the transaction log's nor the cache's")
                elif tx_i and srcs[0] in hit_i:
                    # returned the cached record although the log was asked: the log must have said None
                    r = p.events[tx_i[0]][3]
                    if sat(p.cond, r.fields["disc"] == 1):
                        fails.append("G1: the cached record is returned although the transaction log holds one")
            if some is False:
                for i in tx_i + hit_i:
                    r = p.events[i][3]
                    if isinstance(r, Agg) and r.kind == "Option" and sat(p.cond, r.fields["disc"] == 1):
                        fails.append("G1: None is returned although %s found a record" % names[i].split("::", 1)[-1])
        # ---- get ------------------------------------------------------------------------------------
        f = _body(funcs, "get")
        if f is None:
            return {"engine": "mir", "verdict": "inconclusive", "reason": "StorageManager::get not found in the MIR dump", "wall_s": 0, "queries": 0}
        w = corowalk.CoWalker(f)
        paths = [p for p in w.run() if not (p.panic and "resumed after" in p.panic)]
        stats["get"] = len(paths)
        saw_hit = saw_miss_ok = saw_miss_err = False
        for p in paths:
            res = ready(p)
            names = [e[0] for e in p.events]
            co_i = [i for i, n in enumerate(names) if n.endswith("get_from_cache_only")]
            db_i = [i for i, n in enumerate(names) if n.endswith("Database>::get")]
            put_i = [i for i, n in enumerate(names) if n.endswith("TimedCache::put")]
            if not (isinstance(res, Agg) and res.kind == "Result"):
                fails.append("G2: get returns %r" % (p.ret,))
                continue
            if not co_i or (db_i and db_i[0] < co_i[0]):
                fails.append("G2: get reads the database without consulting the transaction log and the cache first")
                continue
            found = p.events[co_i[0]][3]
            if not (isinstance(found, Agg) and found.kind == "Option"):
                fails.append("G2: unexpected result of get_from_cache_only")
                continue
            hit = not sat(p.cond, found.fields["disc"] != 1)
            if hit:
                saw_hit = True
                if db_i or put_i:
                    fails.append("G2: get touches the database / cache although the record was found in the log or cache")
                if res.fields["ok"] is not True or res.fields["Ok"][0] != found.fields["Some"][0]:
                    fails.append("G2: get does not return the record found in the log or cache")
                continue
            if not db_i:
                fails.append("G2: get neither found the record nor read the database")
                continue
            a_co = [strip(x) for x in p.events[co_i[0]][1]][1:]
            a_db = [strip(x) for x in p.events[db_i[0]][1]][1:]
            if a_co != a_db:
                fails.append("G2: the database is read for another key than the one looked up in the log and cache")
            dres = p.events[db_i[0]][3]
            dok = p.events[db_i[0]][2]
            rok = res.fields["ok"]
            ret_ok = z3.BoolVal(rok) if isinstance(rok, bool) else rok
            if sat(p.cond, dok):
                saw_miss_ok = True
                if sat(p.cond, dok, z3.Not(ret_ok)) or res.fields.get("Ok", {}).get(0) != dres.fields["Ok"][0]:
                    fails.append("G2: get does not return the record the database returned")
                for i in put_i:
                    if strip(p.events[i][1][1]) != dres.fields["Ok"][0]:
                        fails.append("G2: get caches something else than the record the database returned")
            if sat(p.cond, z3.Not(dok)):
                saw_miss_err = True
                if put_i:
                    fails.append("G2: get caches a record although the database read failed")
                if sat(p.cond, z3.Not(dok), ret_ok):
                    fails.append("G2: get returns Ok although the database read failed")
        # ---- batch_get --------------------------------------------------------------------------------
        f = _body(funcs, "batch_get")
        if f is None:
            return {"engine": "mir", "verdict": "inconclusive", "reason": "StorageManager::batch_get not found in the MIR dump", "wall_s": 0, "queries": 0}
        w = corowalk.CoWalker(f, max_steps=200000)
        w.loop_bound = 1
        paths = [p for p in w.run() if not (p.panic and "resumed after" in p.panic)]
        stats["batch_get"] = len(paths)
        saw_fill = False
        for p in paths:
            if p.panic:
                continue
            names = [e[0] for e in p.events]
            db_i = [i for i, n in enumerate(names) if n.endswith("Database>::batch_get")]
            put_i = [i for i, n in enumerate(names) if n.endswith("TimedCache::batch_put") or n.endswith("TimedCache::put")]
            for i in put_i:
                before = [j for j in db_i if j < i]
                if not before:
                    fails.append("G3: batch_get writes to the cache without having read the database")
                    continue
                dres = p.events[before[-1]][3]
                dok = p.events[before[-1]][2]
                arg = strip(p.events[i][1][1]) if len(p.events[i][1]) > 1 else None
                if sat(p.cond, z3.Not(dok)):
                    fails.append("G3: batch_get caches records although the database read failed")
                if not (isinstance(dres, Agg) and arg == dres.fields["Ok"][0]):
                    fails.append("G3: batch_get caches something else (%r) than the records the database returned" % (arg,))
                else:
                    saw_fill = True
            res = ready(p)
            if db_i and isinstance(res, Agg) and res.kind == "Result":
                dok = p.events[db_i[-1]][2]
                rok = res.fields["ok"]
                ret_ok = z3.BoolVal(rok) if isinstance(rok, bool) else rok
                if sat(p.cond, z3.Not(dok), ret_ok):
                    fails.append("G3: batch_get returns Ok although the database read failed")
        if not saw_fill:
            fails.append("witness: no path of batch_get fills the cache from a database read (walker too coarse)")
        # ---- flush ---------------------------------------------------------------------------------
        f = _body(funcs, "flush_cache")
        if f is not None:
            w = corowalk.CoWalker(f)
            paths = [p for p in w.run() if not (p.panic and "resumed after" in p.panic)]
            stats["flush_cache"] = len(paths)
            if not any(any(e[0].endswith("TimedCache::flush") for e in p.events) for p in paths):
                fails.append("F1: flush_cache never flushes the cache")
            fl = [p for p in paths if any(e[0].endswith("TimedCache::flush") for e in p.events)]
            # the variable that says "there is a cache": the one every flushing path fixes to 1
            cache_vars = [var for (nm, srt), var in w.named.items() if nm.startswith("disc:") and fl and all(not sat(q.cond, var != 1) for q in fl)]
            for p in paths:
                if p not in fl and (not cache_vars or all(sat(p.cond, var == 1) for var in cache_vars)):
                    fails.append("F1: flush_cache skips the flush although there is a cache")
        else:
            return {"engine": "mir", "verdict": "inconclusive", "reason": "StorageManager::flush_cache not found in the MIR dump", "wall_s": 0, "queries": 0}
    except Unsupported as ex:
        return {"engine": "mir", "verdict": "inconclusive", "reason": "MIR construct outside the event walker's fragment: %s" % ex, "wall_s": round(time.time() - t0, 2), "queries": 0}
    uniq = []
    for x in fails:
        if x not in uniq:
            uniq.append(x)
    res = {"engine": "mir", "wall_s": round(time.time() - t0, 2), "queries": nq[0], "solver_s": round(solver_s[0], 2),
           "witness_ok": saw_hit and saw_miss_ok and saw_miss_err and not any(x.startswith("witness:") for x in uniq),
           "witness": "paths per function %s; get: hit / miss+Ok / miss+Err paths all reached: %s; set and batch_set: failing-write and in-transaction paths reached" % (stats, saw_hit and saw_miss_ok and saw_miss_err),
           "extra": {"paths": stats}}
    if uniq:
        res["verdict"] = "fail"
        res["reason"] = "; ".join(uniq[:3])
        res["failures"] = uniq
    else:
        res["verdict"] = "pass"
        res["reason"] = "%d queries decided, S1-S3, G1-G2, F1 hold" % nq[0]
    return res
