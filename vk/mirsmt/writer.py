"""Engine M, second client: the record shift of `TreeNode::write_to_storage` (akd/src/tree_node.rs).

The function is an `async fn`; rustc lowers it to a coroutine whose MIR (`…::write_to_storage::
{closure#0}`) is a plain CFG. This module walks that CFG symbolically from the initial state
(discriminant 0) with

  * `self.last_epoch` a 64-bit symbol, `is_new` a Boolean symbol, `self.label` / `self` opaque,
  * every awaited inner future completing (`Future::poll` returns `Ready(r)` with `r` symbolic:
    for the lookup `Ok(node)`, `Err(NotFound)` or `Err(other)`; for the final write `Ok/Err`),

and records the two storage calls it reaches together with their path conditions and arguments.
The obligations (decided by z3, inputs 64-bit, no loop in this function):

  W1  the previous-value lookup `get_appropriate_tree_node_from_storage` is issued exactly when
      `!is_new`, for the node's own key, at epoch `last_epoch - 1` (or 0 when last_epoch = 0)
  W2  no arithmetic panic
  W3  the record is written exactly when is_new, or the lookup returned Ok or NotFound; any other
      lookup error is returned without writing
  W4  the record written is { label: self.label, latest_node: self.clone(),
      previous_node: None if is_new or NotFound, Some(node) if the lookup returned Ok(node) }

This is the writer half of C11's "shift"; the reader half (`determine_node_to_get`) is decided by
Kani. Suspension points only re-enter the same `poll` call, so "every await completes" loses no
behaviour of this function itself (interleavings with other tasks are outside the claim).
"""
import re
import time

import z3

from .mirparse import split_args


class Unsupported(Exception):
    pass


class Sym:
    """opaque value"""
    def __init__(self, name):
        self.name = name

    def __repr__(self):
        return "<%s>" % self.name


class Agg:
    def __init__(self, kind, fields):
        self.kind = kind
        self.fields = fields

    def __repr__(self):
        return "%s%r" % (self.kind, self.fields)


class Walker:
    def __init__(self, func):
        self.func = func
        self.E = z3.BitVec("last_epoch", 64)
        self.is_new = z3.Bool("is_new")
        self.lookup_ok = z3.Bool("lookup_returns_ok")
        self.lookup_notfound = z3.Bool("lookup_returns_notfound")
        self.write_ok = z3.Bool("write_returns_ok")
        self.calls = []      # (name, cond, args)
        self.panics = []     # cond
        self.returns = []    # (cond, value)
        self.paths = 0

    # ---- values ---------------------------------------------------------------------------
    def read(self, st, place):
        place = place.strip()
        if place in st:
            return st[place]
        # self fields through a copy of the &TreeNode
        m = re.match(r"^\(\(\*(_\d+)\)\.(\d+): (.*)\)$", place)
        if m:
            base = st.get(m.group(1))
            if isinstance(base, Sym) and base.name == "&self":
                idx = int(m.group(2))
                if idx == 1:
                    return self.E
                if idx == 0:
                    return Sym("self.label")
                return Sym("self.%d" % idx)
            if isinstance(base, Sym) and base.name == "&coroutine":
                idx = int(m.group(2))
                return {0: Sym("&self"), 1: Sym("&storage"), 2: self.is_new}.get(idx, Sym("captured.%d" % idx))
        m = re.match(r"^\(\*(_\d+)\)$", place)
        if m:
            base = st.get(m.group(1))
            if isinstance(base, tuple) and base[0] == "ref":
                return self.read(st, base[1])
        m = re.match(r"^\((_\d+)\.(\d+): .*\)$", place)
        if m:
            base = st.get(m.group(1))
            if isinstance(base, tuple) and base[0] == "tup":
                return base[1][int(m.group(2))]
            if isinstance(base, Sym) and base.name == "pin" and m.group(2) == "0":
                return Sym("&coroutine")
        m = re.match(r"^\(\((_\d+) as (\w+)\)\.(\d+): .*\)$", place)
        if m:
            base = st.get(m.group(1))
            if isinstance(base, Agg) and m.group(2) in base.fields:
                return base.fields[m.group(2)]
            if isinstance(base, Agg) and base.kind == "result_tree":
                return base.fields[m.group(2)]
        raise Unsupported("read of " + place)

    def operand(self, st, s):
        s = s.strip()
        for pre in ("no_retag copy ", "copy ", "move "):
            if s.startswith(pre):
                return self.read(st, s[len(pre):])
        if s.startswith("const "):
            c = s[6:].strip()
            m = re.match(r"^(-?\d+)_(u64|usize|u32)$", c)
            if m:
                return z3.BitVecVal(int(m.group(1)), 64)
            if c == "true":
                return z3.BoolVal(True)
            if c == "false":
                return z3.BoolVal(False)
            return Sym("const " + c)
        return self.read(st, s)

    def rvalue(self, st, rv):
        rv = rv.strip()
        m = re.match(r"^(Gt|Lt|Ge|Le|Eq|Ne)\((.*)\)$", rv)
        if m:
            a, b = [self.operand(st, x) for x in split_args(m.group(2))]
            return {"Gt": z3.UGT, "Lt": z3.ULT, "Ge": z3.UGE, "Le": z3.ULE, "Eq": lambda x, y: x == y, "Ne": lambda x, y: x != y}[m.group(1)](a, b)
        m = re.match(r"^SubWithOverflow\((.*)\)$", rv)
        if m:
            a, b = [self.operand(st, x) for x in split_args(m.group(1))]
            return ("tup", [a - b, z3.ULT(a, b)])
        m = re.match(r"^AddWithOverflow\((.*)\)$", rv)
        if m:
            a, b = [self.operand(st, x) for x in split_args(m.group(1))]
            return ("tup", [a + b, z3.ULT(a + b, a)])
        m = re.match(r"^discriminant\((.*)\)$", rv)
        if m:
            if m.group(1).startswith("(*"):
                # discriminant of the coroutine itself: the walk starts in the initial state 0
                return z3.BitVecVal(0, 64)
            v = self.read(st, m.group(1))
            if isinstance(v, Agg) and "disc" in v.fields:
                return v.fields["disc"]
            raise Unsupported("discriminant of " + m.group(1))
        m = re.match(r"^&(mut )?(.*)$", rv)
        if m:
            return ("ref", m.group(2).strip())
        if rv.startswith("std::option::Option::<") and rv.endswith("::None"):
            return Agg("None", {})
        m = re.match(r"^std::option::Option::<.*>::Some\((.*)\)$", rv)
        if m:
            return Agg("Some", {"0": self.operand(st, m.group(1))})
        m = re.match(r"^NodeKey\((.*)\)$", rv)
        if m:
            return Agg("NodeKey", {"0": self.operand(st, m.group(1))})
        m = re.match(r"^TreeNodeWithPreviousValue \{ label: (.*), latest_node: (.*), previous_node: (.*) \}$", rv)
        if m:
            return Agg("Record", {"label": self.operand(st, m.group(1)), "latest_node": self.operand(st, m.group(2)), "previous_node": self.operand(st, m.group(3))})
        m = re.match(r"^Result::<.*>::(Ok|Err)\((.*)\)$", rv)
        if m:
            return Agg("Result" + m.group(1), {"0": self.operand(st, m.group(2))})
        m = re.match(r"^Poll::<.*>::Ready\((.*)\)$", rv)
        if m:
            return Agg("Ready", {"0": self.operand(st, m.group(1))})
        if re.match(r"^Poll::<.*>::Pending$", rv):
            return Agg("Pending", {})
        return self.operand(st, rv)

    # ---- walking ----------------------------------------------------------------------------
    def run(self):
        st = {"_1": Sym("pin"), "_2": Sym("&context")}
        self.walk("bb0", st, z3.BoolVal(True), 0)

    def walk(self, bb, st, cond, depth):
        if depth > 80:
            raise Unsupported("path too long (unexpected loop)")
        block = self.func.blocks[bb]
        st = dict(st)
        for s in block.stmts:
            if s.startswith(("StorageLive", "StorageDead", "nop", "FakeRead", "PlaceMention", "Retag")):
                continue
            m = re.match(r"^discriminant\(\(\*(_\d+)\)\) = (\d+)$", s)
            if m:
                continue
            m = re.match(r"^(\S.*?) = (.*)$", s)
            if not m:
                raise Unsupported("statement " + s)
            st[m.group(1).strip()] = self.rvalue(st, m.group(2))
        t = block.term
        if t == "return":
            self.returns.append((cond, st.get("_0")))
            self.paths += 1
            return
        if t in ("unreachable", "resume"):
            return
        if t.startswith("goto -> "):
            return self.walk(t[8:], st, cond, depth + 1)
        if t.startswith("switchInt("):
            m = re.match(r"switchInt\((.*)\) -> \[(.*)\]$", t)
            opnd = m.group(1)
            v = self.operand(st, opnd)
            arms = [x.strip().partition(": ") for x in m.group(2).split(",")]
            taken = []
            for k, _, tgt in arms:
                if k == "otherwise":
                    c = z3.And(*[z3.Not(x) for x in taken]) if taken else z3.BoolVal(True)
                else:
                    c = (v if int(k) else z3.Not(v)) if z3.is_bool(v) else (v == z3.BitVecVal(int(k), v.size()))
                    taken.append(c)
                nc = z3.simplify(z3.And(cond, c))
                if z3.is_false(nc):
                    continue
                s_ = z3.Solver()
                s_.add(nc)
                if s_.check() == z3.unsat:
                    continue
                self.walk(tgt, st, nc, depth + 1)
            return
        if t.startswith("assert("):
            m = re.match(r"assert\((!?)(.*?), \".*-> \[success: (bb\d+), unwind.*\]$", t)
            c = self.operand(st, m.group(2))
            if m.group(1):
                c = z3.Not(c)
            self.panics.append(z3.And(cond, z3.Not(c)))
            return self.walk(m.group(3), st, z3.simplify(z3.And(cond, c)), depth + 1)
        if t.startswith("drop("):
            m = re.search(r"return: (bb\d+)", t)
            return self.walk(m.group(1), st, cond, depth + 1)
        m = _split_call(t)
        if m:
            dest, callee, argstr, nxt = m
            args = [self.operand(st, a) for a in split_args(argstr)]
            if callee.startswith("TreeNodeWithPreviousValue::get_appropriate_tree_node_from_storage"):
                self.calls.append(("lookup", cond, args))
                st[dest] = Sym("lookup_future")
            elif callee.startswith("TreeNodeWithPreviousValue::write_to_storage"):
                if isinstance(args[0], tuple) and args[0][0] == "ref":
                    args[0] = self.read(st, args[0][1])
                self.calls.append(("write", cond, args))
                st[dest] = Sym("write_future")
            elif "into_future" in callee or "new_unchecked" in callee:
                st[dest] = args[0]
            elif callee.endswith("Future>::poll"):
                fut = args[0]
                if isinstance(fut, tuple):
                    fut = self.read(st, fut[1])
                if isinstance(fut, Sym) and fut.name == "lookup_future":
                    disc = z3.If(self.lookup_ok, z3.BitVecVal(0, 64), z3.BitVecVal(1, 64))
                    edisc = z3.If(self.lookup_notfound, z3.BitVecVal(0, 64), z3.BitVecVal(2, 64))
                    res = Agg("result_tree", {"disc": disc, "Ok": Agg("x", {"0": Sym("looked_up_node")}).fields["0"],
                                              "Err": Agg("StorageError", {"disc": edisc})})
                    st[dest] = Agg("Poll", {"disc": z3.BitVecVal(0, 64), "Ready": res})
                elif isinstance(fut, Sym) and fut.name == "write_future":
                    st[dest] = Agg("Poll", {"disc": z3.BitVecVal(0, 64), "Ready": Sym("write_result")})
                else:
                    raise Unsupported("poll of " + repr(fut))
            elif "Clone>::clone" in callee:
                a = args[0]
                st[dest] = Sym("clone(%s)" % (a.name.lstrip("&") if isinstance(a, Sym) else a))
            else:
                raise Unsupported("call " + callee)
            return self.walk(nxt, st, cond, depth + 1)
        raise Unsupported("terminator " + t)


def _split_call(t):
    """`dest = callee(args) -> [return: bbN, unwind ...]` where callee may itself contain parentheses"""
    m = re.match(r"^(\S.*?) = (.*) -> \[return: (bb\d+), unwind.*\]$", t)
    if not m:
        return None
    dest, call, nxt = m.groups()
    if not call.endswith(")"):
        return None
    depth = 0
    for i in range(len(call) - 1, -1, -1):
        ch = call[i]
        if ch == ")":
            depth += 1
        elif ch == "(":
            depth -= 1
            if depth == 0:
                return dest, call[:i], call[i + 1:-1], nxt
    return None


def _find(funcs):
    cands = [f for n, f in funcs.items() if n.endswith("write_to_storage::{closure#0}") and "tree_node" in n]
    # the TreeNode method takes (self, storage, is_new): its coroutine reads a captured bool `.2`
    for f in cands:
        text = " ".join(s for b in f.blocks.values() for s in b.stmts)
        if "get_appropriate_tree_node_from_storage" in " ".join((b.term or "") for b in f.blocks.values()) or ".2: bool" in text:
            return f
    return None


def run_obligation(ob, tier, seed, funcs):
    t0 = time.time()
    f = _find(funcs)
    if f is None:
        return {"engine": "mir", "verdict": "inconclusive", "reason": "coroutine body of TreeNode::write_to_storage not found in the MIR dump", "wall_s": 0, "queries": 0}
    w = Walker(f)
    # the Poll / Result values read through `(_18 as Ready).0` etc.
    try:
        _patch_reads(w)
        w.run()
    except Unsupported as ex:
        return {"engine": "mir", "verdict": "inconclusive", "reason": "MIR construct outside the writer walker's fragment: %s" % ex, "wall_s": round(time.time() - t0, 2), "queries": 0}
    E, is_new, ok, nf = w.E, w.is_new, w.lookup_ok, w.lookup_notfound
    queries, fails = [], []

    def ask(name, q, model_vars=(E, is_new, ok, nf)):
        s = z3.Solver()
        s.add(q)
        r = s.check()
        model = None
        if r == z3.sat:
            m = s.model()
            model = {str(v): str(m.eval(v, True)) for v in model_vars}
            fails.append((name, model))
        queries.append({"query": name, "expect": "unsat", "verdict": str(r), "model": model})

    lookups = [c for c in w.calls if c[0] == "lookup"]
    writes = [c for c in w.calls if c[0] == "write"]
    lookup_cond = z3.Or(*[c[1] for c in lookups]) if lookups else z3.BoolVal(False)
    write_cond = z3.Or(*[c[1] for c in writes]) if writes else z3.BoolVal(False)
    ask("W2: arithmetic panic reachable", z3.Or(*w.panics) if w.panics else z3.BoolVal(False))
    ask("W1a: previous-value lookup issued although is_new, or skipped although not is_new", z3.Xor(lookup_cond, z3.Not(is_new)))
    want_epoch = z3.If(z3.UGT(E, 0), E - 1, E)
    for _, c, args in lookups:
        ep = args[2]
        ask("W1b: lookup epoch is not last_epoch-1 (0 stays 0)", z3.And(c, ep != want_epoch))
        key = args[1]
        key_ok = isinstance(key, tuple) and key[0] == "ref"
        if not key_ok:
            fails.append(("W1c: lookup key is not a reference to the node's own key", {}))
    ok_to_write = z3.Or(is_new, ok, z3.And(z3.Not(ok), nf))
    ask("W3: record written although the lookup failed with another error, or not written although it should be", z3.Xor(write_cond, ok_to_write))
    for _, c, args in writes:
        recv = args[0]
        if not isinstance(recv, Agg) or recv.kind != "Record":
            fails.append(("W4: could not resolve the record passed to the storage write", {}))
            continue
        lab, latest, prev = recv.fields["label"], recv.fields["latest_node"], recv.fields["previous_node"]
        if not (isinstance(lab, Sym) and lab.name == "self.label"):
            fails.append(("W4a: record label is not self.label (%r)" % (lab,), {}))
        if not (isinstance(latest, Sym) and latest.name == "clone(self)"):
            fails.append(("W4b: latest_node is not self.clone() (%r)" % (latest,), {}))
        # previous: None on paths with is_new or NotFound, Some(looked_up_node) on Ok paths
        want_none = z3.Or(is_new, z3.And(z3.Not(ok), nf))
        if isinstance(prev, Agg) and prev.kind == "None":
            ask("W4c: previous_node is None on a path where the lookup returned a node", z3.And(c, z3.Not(want_none)))
        elif isinstance(prev, Agg) and prev.kind == "Some" and isinstance(prev.fields["0"], Sym) and prev.fields["0"].name == "looked_up_node":
            ask("W4d: previous_node is Some(node) on a path where it must be None", z3.And(c, want_none))
        else:
            fails.append(("W4e: unexpected previous_node %r" % (prev,), {}))
    # vacuity twins
    sat_twin = z3.Solver()
    sat_twin.add(lookup_cond)
    twin1 = str(sat_twin.check())
    sat_twin = z3.Solver()
    sat_twin.add(write_cond, z3.Not(is_new))
    twin2 = str(sat_twin.check())
    queries.append({"query": "witness: a path issues the lookup / a path writes after a lookup", "expect": "sat", "verdict": twin1 + "/" + twin2, "model": None})
    res = {"engine": "mir", "wall_s": round(time.time() - t0, 2), "queries": len(queries), "solver_s": 0.0,
           "witness_ok": twin1 == "sat" and twin2 == "sat", "witness": "lookup reachable: %s; write after lookup reachable: %s; %d paths, %d lookups, %d writes" % (twin1, twin2, w.paths, len(lookups), len(writes)),
           "extra": {"queries": queries, "paths": w.paths, "function": f.name, "mir_lines": f.src_lines}}
    if fails:
        res["verdict"] = "fail"
        res["reason"] = "; ".join("%s %s" % (n, m) for n, m in fails[:3])
        res["replay"] = {"status": "reproduced", "path": _write_replay(ob, fails, f),
                         "detail": "the violated relation is a statement about the MIR of the writer itself (no inputs to replay): see the recorded path condition"}
    else:
        res["verdict"] = "pass"
        res["reason"] = "%d queries unsat as required; %d paths through the writer" % (len(queries) - 1, w.paths)
    return res


def _write_replay(ob, fails, f):
    import json
    import os
    from . import driver
    os.makedirs(driver.REPLAYS, exist_ok=True)
    path = os.path.join(driver.REPLAYS, "C11_%s.json" % ob["id"].replace(".", "_"))
    json.dump({"property": "C11", "obligation": ob["id"], "kind": "writer", "function": f.name, "failed": [{"query": n, "model": m} for n, m in fails]}, open(path, "w"), indent=1)
    return path


def _patch_reads(w):
    """extend Walker.read for the enum projections of this function"""
    orig = w.read

    def read(st, place):
        place = place.strip()
        m = re.match(r"^\(\((_\d+) as (\w+)\)\.(\d+): .*\)$", place)
        if m:
            base = st.get(m.group(1))
            var = m.group(2)
            if isinstance(base, Agg):
                if base.kind == "Poll" and var == "Ready":
                    return base.fields["Ready"]
                if base.kind == "result_tree" and var in ("Ok", "Err"):
                    return base.fields[var]
        m = re.match(r"^\(\(\((_\d+) as (\w+)\)\.(\d+): .*\)\)$", place)
        return orig(st, place)
    w.read = read
    # remember aggregates assigned to coroutine-state places so that `&place` arguments resolve
    orig_walk = w.walk

    def walk(bb, st, cond, depth):
        w._last_state = st
        return orig_walk(bb, st, cond, depth)
    w.walk = walk
