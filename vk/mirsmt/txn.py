"""Engine M, fourth client: the transaction log's state machine (akd/src/storage/transaction.rs).

`Transaction::{begin_transaction, commit_transaction, rollback_transaction}` are synchronous
functions over an `Arc<DashMap>` (pending records) and an `Arc<AtomicBool>` (open flag). Kani cannot
touch DashMap (DESIGN section 2, P5), but for these three functions the container is only ever used
*as a whole* (iterate all, clear). The walker executes their MIR with the abstract state

    active : Bool (symbolic initial value)          mods : the symbolic multiset M of pending records

and models `Atomic::<bool>::{load, store, swap}`, `DashMap::{iter, clear}`, `Iterator::{map,
collect}`, `sort_by_key` as operations on that state; the two closures are resolved to their own MIR
and checked (the map closure clones the entry's value, the sort key is `transaction_priority`).
z3 decides over the initial `active`:

  T1  begin_transaction returns true exactly when no transaction was open, and leaves one open
  T2  commit_transaction with no open transaction returns Err and changes nothing
  T3  commit_transaction with an open transaction returns Ok(V) where V = the values of ALL pending
      records, each exactly once (clone of every entry of M, nothing filtered, skipped or taken),
      sorted by `DbRecord::transaction_priority` ascending (any of std's by-key sorts); afterwards the log is empty and no
      transaction is open
  T4  rollback_transaction with no open transaction returns Err and changes nothing; with one open
      it empties the log, closes the transaction and returns Ok

Together with C11.epoch_record_last (Kani: the epoch record has the strictly largest priority) T3
gives "commit hands the database exactly the pending records with the epoch record last".
Interleavings of concurrent callers are outside the claim (C12).
"""
import os
import re
import time

import z3

from . import histglue
from .histglue import Agg, Ref, Sym, Unsupported, bv


class TxWalker(histglue.Walker):
    def __init__(self, func, funcs, field_names):
        self.func = func
        self.funcs = funcs
        self.field_names = field_names
        self.active0 = z3.Bool("active_before")
        self.paths = []
        self.nevent = 0
        self.steps = 0

    def initial(self):
        return {"_1": Sym("&self"), "@active": self.active0, "@mods": "M", "@log": []}

    def get(self, st, p):
        # fields of *self
        if p[0] == "field" and p[1] == ("deref", ("local", "_1")):
            name = self.field_names[p[2]] if p[2] < len(self.field_names) else "field%d" % p[2]
            return Sym("self." + name)
        return super().get(st, p)

    def operand(self, st, s):
        s = s.strip()
        m = re.match(r"^const ZeroSized: (\{closure@.*\})$", s)
        if m:
            return Sym("closure:" + m.group(1))
        return super().operand(st, s)

    def rvalue(self, st, rv):
        rv = rv.strip()
        if re.match(r"^(std::sync::atomic::)?Ordering::\w+$", rv):
            return Sym("Ordering")
        m = re.match(r"^(?:errors::)?StorageError::(\w+)\((.*)\)$", rv)
        if m:
            return Sym("StorageError::" + m.group(1))
        m = re.match(r"^(?:std::result::)?Result::<.*>::(Ok|Err)\(const \(\)\)$", rv)
        if m:
            return Agg("Result", {"ok": m.group(1) == "Ok", m.group(1): {0: Sym("()")}})
        return super().rvalue(st, rv)

    def target(self, st, v):
        while isinstance(v, Ref):
            v = self.get(st, v.place) if v.place is not None else v.value
        return v

    def closure_fn(self, sym):
        want = sym.name[len("closure:"):]
        for n, f in self.funcs.items():
            if "{closure#" in n and f.args and want in f.args[0][1]:
                return f
        raise Unsupported("closure body not found for " + want)

    def call(self, st, callee, args, path):
        c = callee.replace("std::", "").replace("core::", "").replace("alloc::", "")
        log = st["@log"]
        if re.match(r"^<Arc<.*> as (ops::)?(deref::)?Deref>::deref$", c):
            return Ref(value=self.target(st, args[0]))
        m = re.match(r"^(sync::atomic::)?Atomic(Bool)?(::<bool>)?::(load|store|swap)$", c)
        if m:
            tgt = self.target(st, args[0])
            if not (isinstance(tgt, Sym) and tgt.name == "self.active"):
                raise Unsupported("atomic operation on %r" % (tgt,))
            op = m.group(4)
            cur = st["@active"]
            if op == "load":
                return cur
            val = args[1]
            if not isinstance(val, bool) and not z3.is_bool(val):
                raise Unsupported("atomic %s of a non-boolean" % op)
            st["@active"] = z3.BoolVal(val) if isinstance(val, bool) else val
            st["@log"] = log + [(op, val)]
            return cur if op == "swap" else Sym("()")
        m = re.match(r"^(dashmap::)?DashMap::<.*>::(iter|clear|len|is_empty)$", c)
        if m:
            tgt = self.target(st, args[0])
            if not (isinstance(tgt, Sym) and tgt.name == "self.mods"):
                raise Unsupported("DashMap operation on %r" % (tgt,))
            if m.group(2) == "iter":
                return Agg("Seq", {"of": st["@mods"], "ops": []})
            if m.group(2) == "clear":
                st["@mods"] = "EMPTY"
                st["@log"] = log + [("clear",)]
                return Sym("()")
            # the pending set may or may not be empty: one symbol per function, consistent across reads
            if st["@mods"] == "EMPTY":
                return True if m.group(2) == "is_empty" else bv(0)
            if m.group(2) == "is_empty":
                return z3.Bool("pending_set_is_empty")
            return z3.BitVec("pending_set_len", 64)
        m = re.match(r"^<.* as (iter::)?(traits::)?(iterator::)?Iterator>::(map|filter|filter_map|skip|take|rev|step_by|take_while|skip_while)::<", c) or \
            re.match(r"^<.* as (iter::)?(traits::)?(iterator::)?Iterator>::(map|filter|filter_map|skip|take|rev|step_by|take_while|skip_while)$", c)
        if m:
            seq = args[0]
            if not (isinstance(seq, Agg) and seq.kind == "Seq"):
                raise Unsupported("iterator adaptor on %r" % (seq,))
            op = m.group(4)
            arg = args[1] if len(args) > 1 else None
            if op == "map":
                f = self.closure_fn(arg)
                arg = ("closure", self.describe_closure(f))
            return Agg("Seq", {"of": seq.fields["of"], "ops": seq.fields["ops"] + [(op, arg)]})
        if re.match(r"^<.* as (iter::)?(traits::)?(iterator::)?Iterator>::collect::<Vec<.*>>$", c):
            seq = args[0]
            if not (isinstance(seq, Agg) and seq.kind == "Seq"):
                raise Unsupported("collect of %r" % (seq,))
            return Agg("Coll", {"of": seq.fields["of"], "ops": list(seq.fields["ops"]), "post": []})
        if re.match(r"^<Vec<.*> as (ops::)?(deref::)?DerefMut>::deref_mut$", c) or re.match(r"^<Vec<.*> as (ops::)?(deref::)?Deref>::deref$", c) or re.match(r"^Vec::<.*>::as_mut_slice$", c):
            return args[0]
        m = re.match(r"^slice::<impl \[.*\]>::(sort_by_key|sort_by_cached_key|sort_unstable_by_key|sort|sort_by|sort_unstable|reverse)(::<.*>)?$", c)
        if m:
            r = args[0]
            v = self.target(st, r)
            if not (isinstance(v, Agg) and v.kind == "Coll"):
                raise Unsupported("sort of %r" % (v,))
            key = None
            if len(args) > 1 and isinstance(args[1], Sym) and args[1].name.startswith("closure:"):
                key = self.describe_closure(self.closure_fn(args[1]))
            nv = Agg("Coll", {"of": v.fields["of"], "ops": v.fields["ops"], "post": v.fields["post"] + [(m.group(1), key)]})
            self.put(st, r.place, nv)
            return Sym("()")
        if re.match(r"^Vec::<.*>::(reverse|truncate|pop|clear|dedup|retain|remove|swap_remove|drain)", c) or re.match(r"^slice::<impl \[.*\]>::", c):
            raise Unsupported("vector operation " + callee)
        if "ToString" in c or "to_string" in c or "fmt::" in c or c.startswith("format"):
            return Sym("string")
        if re.match(r"^<.* as (clone::)?Clone>::clone$", c):
            a = self.target(st, args[0])
            return Sym("clone(%s)" % (a.name if isinstance(a, Sym) else a))
        raise Unsupported("call to " + callee)

    def describe_closure(self, f):
        """symbolic summary of a one-argument closure body: the chain of calls applied to its argument"""
        chain = []
        cur = "_2"
        bb = "bb0"
        alias = {}
        for _ in range(20):
            blk = f.blocks[bb]
            for s in blk.stmts:
                m = re.match(r"^(_\d+) = &(mut )?(_\d+)$", s)
                if m:
                    alias[m.group(1)] = alias.get(m.group(3), m.group(3))
            t = blk.term
            if t == "return":
                break
            if t.startswith("drop(") or t.startswith("goto"):
                bb = re.search(r"(?:return: |goto -> )(bb\d+)", t).group(1)
                continue
            sc = histglue._split_call(t)
            if not sc:
                raise Unsupported("closure terminator " + t)
            dest, callee, argstr, nxt = sc
            a = [x.strip().split(" ")[-1] for x in histglue.split_args(argstr)]
            a = [alias.get(x, x) for x in a]
            if len(a) != 1 or a[0] != cur:
                raise Unsupported("closure applies %s to %r" % (callee, a))
            chain.append(_strip_generics(callee.replace("std::", "").replace("core::", "")))
            cur = dest
            alias[dest] = dest
            bb = nxt
        if cur != "_0":
            raise Unsupported("closure does not return the end of its call chain")
        return tuple(chain)


def _strip_generics(c):
    """drop every `::<...>` turbofish (balanced) from a callee path"""
    out, i = "", 0
    while i < len(c):
        if c.startswith("::<", i):
            depth, j = 0, i + 2
            while j < len(c):
                if c[j] == "<":
                    depth += 1
                elif c[j] == ">":
                    depth -= 1
                    if depth == 0:
                        break
                j += 1
            i = j + 1
            continue
        out += c[i]
        i += 1
    return out


def _find(funcs, name):
    for n, f in funcs.items():
        if n.endswith("::" + name) and "transaction::<impl" in n and f.kind == "fn" and f.args and f.args[0][1].strip() == "&Transaction":
            return f
    return None


def run_obligation(ob, tier, seed, funcs, repo="/repo"):
    t0 = time.time()
    src = open(os.path.join(repo, "akd/src/storage/transaction.rs")).read()
    m = re.search(r"pub struct Transaction\s*\{(.*?)\n\}", src, re.S)
    if not m:
        return {"engine": "mir", "verdict": "inconclusive", "reason": "struct Transaction not found", "wall_s": 0, "queries": 0}
    body = re.sub(r"#\[cfg\([^\n]*\)\]\s*\n[^\n]*\n", "", m.group(1))   # the MIR is dumped without optional features
    fields = [x for x in re.findall(r"^\s*(?:pub(?:\([a-z]+\))? )?(\w+)\s*:", body, re.M)]
    fails, queries, stats = [], [], {}
    nq = [0]

    def sat(*cs):
        nq[0] += 1
        s = z3.Solver()
        s.add(*cs)
        return s.check() == z3.sat

    try:
        walked = {}
        for fname in ("begin_transaction", "commit_transaction", "rollback_transaction"):
            f = _find(funcs, fname)
            if f is None:
                return {"engine": "mir", "verdict": "inconclusive", "reason": "Transaction::%s not found in the MIR dump of akd" % fname, "wall_s": 0, "queries": 0}
            w = TxWalker(f, funcs, fields)
            # final abstract state is needed at return: record it with the path
            finals = []
            orig_walk = w.walk

            def walk(bb, st, path, _w=w, _finals=finals, _orig=orig_walk):
                # run block by block to capture the state at `return`
                while True:
                    _w.steps += 1
                    if _w.steps > 2000:
                        raise Unsupported("walk too long")
                    block = _w.func.blocks[bb]
                    if block.term == "return":
                        st2 = dict(st)
                        for s in block.stmts:
                            if s.startswith(("StorageLive", "StorageDead", "nop")):
                                continue
                            mm = re.match(r"^(\S.*?) = (.*)$", s, re.S)
                            _w.put(st2, histglue.parse_place(mm.group(1)), _w.rvalue(st2, mm.group(2)))
                        path.ret = st2.get("_0")
                        _finals.append((path, st2))
                        _w.paths.append(path)
                        return
                    return _orig_step(_w, bb, st, path, walk)
            w.walk = walk
            w.walk("bb0", w.initial(), histglue.Path())
            walked[fname] = (w, finals)
            stats[fname] = {"paths": len(finals), "mir_lines": f.src_lines}
    except Unsupported as ex:
        return {"engine": "mir", "verdict": "inconclusive", "reason": "MIR construct outside the transaction walker's fragment: %s" % ex, "wall_s": round(time.time() - t0, 2), "queries": 0}

    def unchanged(st):
        return st["@mods"] == "M" and not st["@log"]

    # T1
    w, finals = walked["begin_transaction"]
    a0 = w.active0
    for path, st in finals:
        r = path.ret
        rb = z3.BoolVal(r) if isinstance(r, bool) else r
        if not z3.is_bool(rb):
            fails.append("T1: begin_transaction does not return a boolean")
            continue
        if sat(path.cond, rb != z3.Not(a0)):
            fails.append("T1: begin_transaction returns true although a transaction is open (or false although none is)")
        if sat(path.cond, z3.Not(st["@active"])):
            fails.append("T1: begin_transaction leaves no transaction open")
        if st["@mods"] != "M":
            fails.append("T1: begin_transaction modifies the pending records")
    # T2 / T3
    w, finals = walked["commit_transaction"]
    a0 = w.active0
    covered = []
    for path, st in finals:
        r = path.ret
        if not (isinstance(r, Agg) and r.kind == "Result" and isinstance(r.fields["ok"], bool)):
            fails.append("T3: commit_transaction returns %r" % (r,))
            continue
        covered.append(path.cond)
        if r.fields["ok"]:
            if sat(path.cond, z3.Not(a0)):
                fails.append("T2: commit_transaction returns Ok although no transaction is open")
            v = r.fields["Ok"][0]
            want_ops = [("map", ("closure", ("dashmap::mapref::multiple::RefMulti::value", "<DbRecord as Clone>::clone")))]
            if not (isinstance(v, Agg) and v.kind == "Coll" and v.fields["of"] == "M"):
                fails.append("T3: commit_transaction does not return the pending records (%r)" % (v,))
            else:
                if v.fields["ops"] != want_ops:
                    fails.append("T3: the committed records are not a clone of every pending value (pipeline %r)" % (v.fields["ops"],))
                if v.fields["post"] not in [[(srt, ("DbRecord::transaction_priority",))] for srt in ("sort_by_key", "sort_by_cached_key", "sort_unstable_by_key")]:
                    fails.append("T3: the committed records are not sorted by DbRecord::transaction_priority ascending (%r)" % (v.fields["post"],))
            if st["@mods"] != "EMPTY":
                fails.append("T3: the transaction log is not emptied by commit")
            if sat(path.cond, st["@active"]):
                fails.append("T3: a transaction is still open after commit")
            # the snapshot must be taken before the log is cleared
            if isinstance(v, Agg) and v.kind == "Coll" and ("clear",) in st["@log"]:
                pass
        else:
            if sat(path.cond, a0):
                fails.append("T3: commit_transaction returns Err although a transaction is open")
            if not unchanged(st):
                fails.append("T2: a refused commit changes the transaction state")
    if sat(z3.Not(z3.Or(*covered)) if covered else z3.BoolVal(True)):
        fails.append("T3: commit_transaction has no return path for some state")
    # T4
    w, finals = walked["rollback_transaction"]
    a0 = w.active0
    for path, st in finals:
        r = path.ret
        if not (isinstance(r, Agg) and r.kind == "Result" and isinstance(r.fields["ok"], bool)):
            fails.append("T4: rollback_transaction returns %r" % (r,))
            continue
        if r.fields["ok"]:
            if sat(path.cond, z3.Not(a0)):
                fails.append("T4: rollback returns Ok although no transaction is open")
            if st["@mods"] != "EMPTY":
                fails.append("T4: rollback keeps pending records")
            if sat(path.cond, st["@active"]):
                fails.append("T4: a transaction is still open after rollback")
        else:
            if sat(path.cond, a0):
                fails.append("T4: rollback returns Err although a transaction is open")
            if not unchanged(st):
                fails.append("T4: a refused rollback changes the transaction state")
    npaths = sum(s["paths"] for s in stats.values())
    res = {"engine": "mir", "wall_s": round(time.time() - t0, 2), "queries": nq[0], "solver_s": 0.0,
           "witness_ok": stats["commit_transaction"]["paths"] >= 2 and stats["rollback_transaction"]["paths"] >= 2 and stats["begin_transaction"]["paths"] >= 1,
           "witness": "%d paths (begin %d, commit %d, rollback %d); both the refusing and the committing path of commit / rollback are reached" % (
               npaths, stats["begin_transaction"]["paths"], stats["commit_transaction"]["paths"], stats["rollback_transaction"]["paths"]),
           "extra": {"functions": stats, "fields": fields}}
    if fails:
        uniq = []
        for x in fails:
            if x not in uniq:
                uniq.append(x)
        res["verdict"] = "fail"
        res["reason"] = "; ".join(uniq[:3])
        res["failures"] = uniq
    else:
        res["verdict"] = "pass"
        res["reason"] = "%d queries decided, T1-T4 hold" % nq[0]
    return res


def _orig_step(w, bb, st, path, walk):
    """one block of histglue.Walker.walk, with recursion going through `walk` (so that the state at
    `return` can be captured)"""
    block = w.func.blocks[bb]
    st = dict(st)
    for s in block.stmts:
        if s.startswith(("StorageLive", "StorageDead", "nop", "FakeRead", "PlaceMention", "Retag", "Coverage", "AscribeUserType", "ConstEvalCounter")):
            continue
        m = re.match(r"^(\S.*?) = (.*)$", s, re.S)
        if not m:
            raise Unsupported("statement " + s)
        w.put(st, histglue.parse_place(m.group(1)), w.rvalue(st, m.group(2)))
    t = block.term
    if t in ("unreachable", "resume") or t.startswith("resume"):
        return
    if t.startswith("goto -> "):
        return walk(t[8:], st, path)
    if t.startswith("switchInt("):
        m = re.match(r"switchInt\((.*)\) -> \[(.*)\]$", t)
        v = w.operand(st, m.group(1))
        arms = [x.strip().partition(": ") for x in m.group(2).split(",")]
        if isinstance(v, (bool, int)):
            iv = int(v)
            tgt = None
            for kx, _, tg in arms:
                if kx != "otherwise" and int(kx) == iv:
                    tgt = tg
            if tgt is None:
                tgt = [tg for kx, _, tg in arms if kx == "otherwise"][0]
            return walk(tgt, st, path)
        taken = []
        for kx, _, tg in arms:
            if kx == "otherwise":
                c = z3.And(*[z3.Not(x) for x in taken]) if taken else z3.BoolVal(True)
            else:
                c = (v if int(kx) else z3.Not(v)) if z3.is_bool(v) else (v == z3.BitVecVal(int(kx), v.size()))
                taken.append(c)
            nc = z3.And(path.cond, c)
            if not w.feasible(nc):
                continue
            np = w.fork(path)
            np.cond = z3.simplify(nc)
            walk(tg, st, np)
        return
    if t.startswith("drop("):
        return walk(re.search(r"return: (bb\d+)", t).group(1), st, path)
    m = histglue._split_call(t)
    if m:
        dest, callee, argstr, nxt = m
        args = [w.operand(st, a) for a in histglue.split_args(argstr)]
        r = w.call(st, callee, args, path)
        if nxt is None:
            return
        w.put(st, histglue.parse_place(dest), r)
        return walk(nxt, st, path)
    raise Unsupported("terminator " + t)
