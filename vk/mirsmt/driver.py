"""Engine M driver: MIR of /repo (regenerated on every run) -> bounded symbolic execution -> SMT.

Obligations decided here (property C08, and the marker arithmetic C07 relies on):
  V   translator validation: encoding vs. the real function (native probe) on the repository's
      own test vectors and seeded random triples
  M1  get_marker_versions never panics, loops stay within the unwinding bound, past markers are
      strictly increasing in [1, s), future markers strictly increasing in (n, E]; past depends
      only on s, future only on (n, E) (syntactic dependency check on the encoding)
  M5  server/verifier marker agreement: akd::directory::get_marker_version(v) =
      akd_core::utils::get_marker_version_log2(v) = floor(log2 v) for all v >= 1 (64 bit)
  M6  membership in the real past/future vectors == closed-form specification predicates
  M2  history/history: for n < m <= E and any s2 <= m,
      future(n,E) meets [s2..m] u past(s2)   (on the real code's outputs)
  M4  lookup(m) vs complete history(n), m > n: {m, 2^floor(log m)} meets future(n,E) -- FALSE by
      design of the single-marker lookup proof (known finding F-C08); the query asks for a witness
      that is NOT explained by the documented construction (spec predicate), which would be a new
      violation.
All queries are over 64-bit bit-vectors; the stated width bound W adds the assumption E < 2^W and
uses unwind W+2 (unwinding assertions are queries themselves).
"""
import json
import os
import random
import re
import subprocess
import time

import z3

from . import mirparse, symex

VERIF = os.path.dirname(os.path.dirname(os.path.dirname(os.path.abspath(__file__))))
BUILD = os.path.join(VERIF, ".build")
REPLAYS = os.path.join(VERIF, "replays")
SKIP = [1, 2, 4, 16, 256, 65536, 1 << 32]

_mir_cache = {}
import threading
_mir_lock = threading.Lock()


def dump_mir(crate):
    """rustc -Zunpretty=mir of the current /repo sources of `crate` (akd_core | akd)."""
    with _mir_lock:
        return _dump_mir(crate)


def _dump_mir(crate):
    if crate in _mir_cache:
        return _mir_cache[crate]
    pre = os.path.join(BUILD, "mir_%s.json" % crate)
    if os.environ.get("VERIF_MIR_PREPARED") == "1" and os.path.exists(pre):
        # dumped by the parent process of this very run (see prepare())
        meta = json.load(open(pre))
        funcs = mirparse.parse(open(meta["path"]).read())
        _mir_cache[crate] = (funcs, meta["dump_s"], meta["lines"])
        return _mir_cache[crate]
    tdir = os.path.join(BUILD, "mir_target")
    os.makedirs(tdir, exist_ok=True)
    env = dict(os.environ)
    env["CARGO_NET_OFFLINE"] = "true"
    env.pop("RUSTFLAGS", None)
    nonce = "verif_mir_nonce_%d" % int(time.time() * 1000)
    feats = {"akd_core": ["--no-default-features", "--features", "vrf,experimental,whatsapp_v1"],
             "akd": ["--no-default-features", "--features", "public_auditing,experimental,whatsapp_v1"]}[crate]
    cmd = ["cargo", "+nightly", "rustc", "--offline", "--lib", "--target-dir", tdir] + feats + \
          ["--", "-Zunpretty=mir", "-C", "debug-assertions=off", "-C", "overflow-checks=on", "--cfg", nonce]
    t0 = time.time()
    p = subprocess.run(cmd, cwd=os.path.join("/repo", crate), stdout=subprocess.PIPE, stderr=subprocess.PIPE, env=env, timeout=1800)
    text = p.stdout.decode(errors="replace")
    if p.returncode != 0 or "fn " not in text:
        raise RuntimeError("MIR dump failed for %s: %s" % (crate, p.stderr.decode(errors="replace")[-600:]))
    funcs = mirparse.parse(text)
    _mir_cache[crate] = (funcs, round(time.time() - t0, 1), len(text.splitlines()))
    path = os.path.join(BUILD, "mir_%s.mir" % crate)
    with open(path, "w") as f:
        f.write(text)
    json.dump({"path": path, "dump_s": _mir_cache[crate][1], "lines": _mir_cache[crate][2], "at": time.time()},
              open(os.path.join(BUILD, "mir_%s.json" % crate), "w"))
    return _mir_cache[crate]


def prepare():
    """Parent process, once per run: regenerate the MIR dumps from /repo's current sources and
    rebuild the native probe; worker processes then load these files."""
    os.environ.pop("VERIF_MIR_PREPARED", None)
    _mir_cache.clear()
    dump_mir("akd_core")
    dump_mir("akd")
    rebuild_native()
    os.environ["VERIF_MIR_PREPARED"] = "1"


# ---- solving -----------------------------------------------------------------------------------
def tactic_solver(timeout_s):
    s = z3.Then("simplify", "solve-eqs", "simplify", "bit-blast", "sat").solver()
    s.set("timeout", int(timeout_s * 1000))
    return s


def decide(defs, pre, q, timeout_s, want_model_of=()):
    """Is pre /\\ q satisfiable (modulo the defining equations)?  returns (verdict, seconds, model)"""
    t0 = time.time()
    s = tactic_solver(timeout_s)
    s.add(*defs)
    s.add(pre)
    s.add(q)
    r = s.check()
    dt = time.time() - t0
    model = None
    if r == z3.sat:
        m = s.model()
        model = {str(v): m.eval(v, True).as_long() for v in want_model_of}
    return str(r), dt, model


def cross_check(defs, pre, q, tag, timeout_s=90, cvc5_cap_s=25):
    """Send the same query as SMT-LIB text (QF_BV) to the system z3 4.8.12 (different version and
    default strategy than the deciding z3 5.1 tactic pipeline) and, best effort, to cvc5 (which
    rarely finishes on these instances within its cap); returns {solver: verdict}."""
    s = z3.Solver()
    s.add(*defs)
    s.add(pre)
    s.add(q)
    path = os.path.join(BUILD, "smt", tag[:80] + ".smt2")
    os.makedirs(os.path.dirname(path), exist_ok=True)
    with open(path, "w") as f:
        f.write("(set-logic QF_BV)\n" + s.to_smt2())
    procs = {}
    t0 = time.time()
    for name, cmd, cap in (("z3-4.8.12", ["/usr/bin/z3", path], timeout_s), ("cvc5-1.0", ["cvc5", "--lang", "smt2", path], cvc5_cap_s)):
        procs[name] = (subprocess.Popen(cmd, stdout=subprocess.PIPE, stderr=subprocess.STDOUT), cap)
    out = {}
    for name, (p, cap) in procs.items():
        try:
            txt = p.communicate(timeout=max(1, cap - (time.time() - t0)))[0].decode(errors="replace")
            if "(error" in txt:
                v = "error"
            else:
                first = txt.strip().splitlines()[0] if txt.strip() else "empty"
                v = first if first in ("sat", "unsat", "unknown") else "error"
        except subprocess.TimeoutExpired:
            p.kill()
            p.communicate()
            v = "timeout"
        out[name] = {"verdict": v, "s": round(time.time() - t0, 2)}
    return out


# ---- specification predicates (independent statement of the documented construction) ------------
def bvv(x):
    return z3.BitVecVal(x, 64)


def smear(d):
    for sh in (1, 2, 4, 8, 16, 32):
        d = d | z3.LShR(d, sh)
    return d


def floor_pow2(x):
    """largest power of two <= x (x != 0)"""
    sm = smear(x)
    return sm ^ z3.LShR(sm, 1)


def skip_floor(x):
    """largest skiplist element <= x (x >= 1)"""
    r = bvv(SKIP[0])
    for k in SKIP[1:]:
        r = z3.If(z3.UGE(x, bvv(k)), bvv(k), r)
    return r


def skip_next(x, e):
    """(exists, value) of the smallest skiplist element in (x, e]"""
    ex = z3.BoolVal(False)
    val = bvv(0)
    for k in reversed(SKIP):
        c = z3.And(z3.UGT(bvv(k), x), z3.ULE(bvv(k), e))
        val = z3.If(c, bvv(k), val)
        ex = z3.Or(ex, c)
    return ex, val


def spec_in_past(x, s):
    p1 = z3.And(x == skip_floor(s), x != s)
    p2 = z3.And(x == floor_pow2(s), x != s)
    d = s ^ x
    p3 = z3.And(x != 0, d != 0, x == (s & ~smear(d)), (s & d) == d)
    return z3.Or(p1, p2, p3)


def spec_in_future(x, n, e):
    t = x & (-x)                       # lowest set bit of x
    a = z3.And(x != 0, (n & t) == 0, z3.ULE(t, n), ((x ^ n) & ~(t | (t - 1))) == 0, z3.ULE(x, e))
    ex, nxt = skip_next(n, e)
    ispow = z3.And(x != 0, (x & (x - 1)) == 0)
    b = z3.And(ispow, z3.UGT(x, floor_pow2(n)), z3.ULE(x, e), z3.Or(z3.Not(ex), z3.ULT(x, nxt)))
    c = z3.And(z3.Or(*[x == bvv(k) for k in SKIP]), z3.UGT(x, n), z3.ULE(x, e))
    return z3.Or(a, b, c)


def vec_contains(vec, x):
    return z3.Or(*[z3.And(z3.UGT(vec.len, bvv(k)), vec.arr.elems[k] == x) for k in range(len(vec.arr.elems))])


def vec_forall(vec, pred):
    """violation of: every element satisfies pred(k, elem)"""
    return z3.Or(*[z3.And(z3.UGT(vec.len, bvv(k)), z3.Not(pred(k, vec.arr.elems[k]))) for k in range(len(vec.arr.elems))])


def deps_of(exprs, defs):
    """free input variables a set of terms depends on, through the defining equations"""
    dmap = {}
    for d in defs:
        dmap[d.arg(0).decl().name()] = d.arg(1)
    seen, out, stack = set(), set(), list(exprs)
    while stack:
        e = stack.pop()
        if e.get_id() in seen:
            continue
        seen.add(e.get_id())
        if z3.is_const(e) and e.decl().kind() == z3.Z3_OP_UNINTERPRETED:
            nm = e.decl().name()
            if nm in dmap:
                stack.append(dmap[nm])
            else:
                out.add(nm)
        else:
            stack.extend(e.children())
    return out


# ---- the obligations -----------------------------------------------------------------------------
SPARSE_BITS = (0, 1, 2, 16, 17, 18, 32, 33, 34)


class Ctx:
    """width = int W: all inputs with E < 2^W (unwind W+2);
       width = "sparse": all inputs whose set bits lie in SPARSE_BITS -- small perturbations of the
       skip-list boundaries 2^16 and 2^32 (unwind 37)."""
    def __init__(self, width):
        self.W = width
        self.sparse = width == "sparse"
        if self.sparse:
            self.unwind = max(SPARSE_BITS) + 3
        else:
            self.unwind = width + 2
        self.funcs, self.mir_s, self.mir_lines = dump_mir("akd_core")
        self.queries = []
        self.solver_s = 0.0

    def run_gmv(self, prefix):
        ex = symex.Executor(self.funcs, unwind=self.unwind)
        ex._fresh = {"a": 0, "b": 1000000, "c": 2000000}.get(prefix, 3000000)
        s, n, e = z3.BitVecs("%s_s %s_n %s_E" % (prefix, prefix, prefix), 64)
        r = ex.run("get_marker_versions", [s, n, e])
        past, fut = r.ret.items
        return ex, (s, n, e), r, past, fut

    def wpre(self, e):
        """domain constraint on one input (callers apply it to the epoch; `dom` to every input)"""
        if self.sparse:
            return self.dom(e)
        return z3.ULT(e, bvv(1 << self.W)) if self.W < 64 else z3.BoolVal(True)

    def dom(self, *xs):
        if not self.sparse:
            return z3.BoolVal(True)
        mask = 0
        for b in SPARSE_BITS:
            mask |= 1 << b
        return z3.And(*[(x & bvv(~mask & ((1 << 64) - 1))) == 0 for x in xs])


def _record(ctx, ob_results, name, expect, verdict, dt, xc=None, model=None):
    ctx.queries.append({"query": name, "expect": expect, "verdict": verdict, "s": round(dt, 2), "cross_check": xc, "model": model})
    ctx.solver_s += dt


def native_gmv(triples):
    exe = os.path.join(BUILD, "native_probe", "release", "native_probe")
    if not os.path.exists(exe):
        env = dict(os.environ)
        env["CARGO_NET_OFFLINE"] = "true"
        env.pop("RUSTFLAGS", None)
        subprocess.run(["cargo", "build", "--release", "--offline", "--target-dir", os.path.join(BUILD, "native_probe")],
                       cwd=os.path.join(VERIF, "native_probe"), env=env, check=True, stdout=subprocess.PIPE, stderr=subprocess.PIPE)
    inp = "".join("%d %d %d\n" % t for t in triples)
    p = subprocess.run([exe], input=inp.encode(), stdout=subprocess.PIPE, timeout=120)
    out = []
    for line in p.stdout.decode().splitlines():
        if line.startswith("panic"):
            out.append(None)
        else:
            a, _, b = line[3:].partition("|")
            out.append(([int(x) for x in a.split()], [int(x) for x in b.split()]))
    return out


def rebuild_native():
    """the probe links /repo's current akd_core: rebuild on every run"""
    if os.environ.get("VERIF_MIR_PREPARED") == "1":
        return
    env = dict(os.environ)
    env["CARGO_NET_OFFLINE"] = "true"
    env.pop("RUSTFLAGS", None)
    p = subprocess.run(["cargo", "build", "--release", "--offline", "--target-dir", os.path.join(BUILD, "native_probe")],
                       cwd=os.path.join(VERIF, "native_probe"), env=env, stdout=subprocess.PIPE, stderr=subprocess.STDOUT)
    if p.returncode != 0:
        raise RuntimeError("native probe build failed: " + p.stdout.decode(errors="replace")[-400:])


TEST_VECTORS = [(65, 65, 128), (85, 85, 65537), (1, 5, 33), (2, 5, 33), (3, 5, 33), (6, 12, 128), (6, 12, 256), (130, 130, 256)]


def ob_validate(ob, tier, seed):
    """V: encoding == real function on the repo's test vectors + seeded random triples."""
    t0 = time.time()
    rebuild_native()
    ctx = Ctx(64)
    rnd = random.Random(seed)
    triples = list(TEST_VECTORS)
    nrand = 24 if tier == "quick" else 120
    for _ in range(nrand):
        bits = rnd.choice([3, 6, 10, 17, 31, 33, 47, 63, 64])
        e = rnd.randrange(1, 1 << bits)
        n = rnd.randrange(1, e + 1)
        s = rnd.randrange(1, n + 1)
        triples.append((s, n, e))
    triples += [(1, 1, 1), (1, 1, (1 << 64) - 1), ((1 << 63) + 5, (1 << 63) + 9, (1 << 64) - 1), (1 << 32, 1 << 32, 1 << 32),
                ((1 << 32) - 1, (1 << 32) + 1, (1 << 33) - 1), (0, 1, 2), (3, 0, 9)]
    native = native_gmv(triples)
    ex, (s, n, e), r, past, fut = ctx.run_gmv("a")
    bad = []
    for t, nat in zip(triples, native):
        sol = z3.Solver()
        sol.add(*ex.defs)
        sol.add(s == t[0], n == t[1], e == t[2])
        assert sol.check() == z3.sat
        m = sol.model()
        pan = z3.is_true(m.eval(r.panicked, True))
        unw = z3.is_true(m.eval(r.unwind_exceeded, True))
        if pan:
            enc = None
        else:
            pl = m.eval(past.len, True).as_long()
            fl = m.eval(fut.len, True).as_long()
            enc = ([m.eval(past.arr.elems[k], True).as_long() for k in range(pl)], [m.eval(fut.arr.elems[k], True).as_long() for k in range(fl)])
        if unw or enc != nat:
            bad.append({"input": t, "native": nat, "encoding": enc, "unwind_exceeded": unw})
    res = {"engine": "mir", "wall_s": round(time.time() - t0, 2), "queries": len(triples), "solver_s": 0.0,
           "witness_ok": True, "witness": "%d concrete triples compared (8 repository test vectors, %d seeded random, 7 edge cases incl. panicking inputs)" % (len(triples), nrand),
           "extra": {"mir_dump_s": ctx.mir_s, "mir_lines": ctx.mir_lines, "symex_stats": ex.stats, "std_models": symex.STD_MODELS,
                     "sample": [{"input": t, "native": nat} for t, nat in list(zip(triples, native))[:3]]}}
    if bad:
        res["verdict"] = "inconclusive"
        res["reason"] = "translator validation FAILED (encoding differs from the real function): %s" % json.dumps(bad[:2])
    else:
        res["verdict"] = "pass"
        res["reason"] = "encoding agrees with the native function on %d triples" % len(triples)
    return res


def _finish(ctx, t0, ob, fails, unknowns, extra=None, witness=None, known=None):
    res = {"engine": "mir", "wall_s": round(time.time() - t0, 2), "queries": len(ctx.queries), "solver_s": round(ctx.solver_s, 2),
           "witness_ok": witness is not False, "witness": witness if isinstance(witness, str) else None,
           "extra": dict({"width_bits": ctx.W, "unwind": ctx.unwind, "mir_dump_s": ctx.mir_s, "queries": ctx.queries}, **(extra or {}))}
    if known:
        res["known_findings"] = known
    if unknowns:
        res["verdict"] = "inconclusive"
        res["reason"] = "solver gave no verdict within the cap for: " + ", ".join(unknowns)
    elif fails:
        res["verdict"] = "fail"
        res["reason"] = "; ".join("%s: %s" % (n, json.dumps(m)) for n, m in fails[:3])
        res["replay"] = _replay_marker(ob, fails)
    else:
        res["verdict"] = "pass"
        res["reason"] = "%d queries unsat as required (domain %s, unwind %d)" % (len(ctx.queries), ctx.W, ctx.unwind)
    return res


def _ask(ctx, ex_defs, pre, name, q, vars_, cap, fails, unknowns, xcheck=False):
    v, dt, model = decide(ex_defs, pre, q, cap, vars_)
    xc = None
    if xcheck and v in ("sat", "unsat"):
        xc = cross_check(ex_defs, pre, q, "%s_w%s" % (re.sub(r"\W+", "_", name), ctx.W))
        for solver, r in xc.items():
            if r["verdict"] in ("sat", "unsat") and r["verdict"] != v:
                unknowns.append("%s (solver disagreement: %s says %s)" % (name, solver, r["verdict"]))
    _record(ctx, None, name, "unsat", v, dt, xc, model)
    if v == "sat":
        fails.append((name, model))
    elif v != "unsat":
        unknowns.append(name)
    return v


def ob_m1(ob, tier, seed):
    t0 = time.time()
    ctx = Ctx(ob["width"])
    ex, (s, n, e), r, past, fut = ctx.run_gmv("a")
    pre = z3.And(z3.UGE(s, 1), z3.ULE(s, n), z3.ULE(n, e), ctx.wpre(e), ctx.dom(s, n))
    cap = ob["query_cap_s"]
    fails, unknowns = [], []
    V = (s, n, e)
    _ask(ctx, ex.defs, pre, "unwinding assertion (loops of get_marker_versions/find_max_index_in_skiplist stay within %d iterations, vectors within capacity)" % ctx.unwind,
         r.unwind_exceeded, V, cap, fails, unknowns, xcheck=True)
    _ask(ctx, ex.defs, pre, "no panic (overflow, shift, index, explicit panics)", r.panicked, V, cap, fails, unknowns, xcheck=True)
    _ask(ctx, ex.defs, pre, "past markers within [1, s)", vec_forall(past, lambda k, x: z3.And(z3.UGE(x, 1), z3.ULT(x, s))), V, cap, fails, unknowns)
    _ask(ctx, ex.defs, pre, "past markers strictly increasing", vec_forall(past, lambda k, x: z3.BoolVal(True) if k == 0 else z3.ULT(past.arr.elems[k - 1], x)), V, cap, fails, unknowns)
    _ask(ctx, ex.defs, pre, "future markers within (n, E]", vec_forall(fut, lambda k, x: z3.And(z3.UGT(x, n), z3.ULE(x, e))), V, cap, fails, unknowns)
    _ask(ctx, ex.defs, pre, "future markers strictly increasing", vec_forall(fut, lambda k, x: z3.BoolVal(True) if k == 0 else z3.ULT(fut.arr.elems[k - 1], x)), V, cap, fails, unknowns)
    # vacuity twin: the precondition is satisfiable and a non-trivial output exists
    v, dt, model = decide(ex.defs, pre, z3.And(z3.UGT(past.len, 1), z3.UGT(fut.len, 2), z3.Not(r.panicked)), cap, V)
    _record(ctx, None, "witness: some input yields >1 past and >2 future markers", "sat", v, dt, None, model)
    # independence (semantic, two runs): past is a function of s alone, future of (n, E) alone
    exb, (sb, nb, eb), rb, pastb, futb = ctx.run_gmv("b")
    defs2 = ex.defs + exb.defs
    pre2 = z3.And(pre, z3.UGE(sb, 1), z3.ULE(sb, nb), z3.ULE(nb, eb), ctx.wpre(eb), ctx.dom(sb, nb))
    def vec_differs(a, b):
        return z3.Or(a.len != b.len, *[z3.And(z3.UGT(a.len, bvv(k)), a.arr.elems[k] != b.arr.elems[k]) for k in range(len(a.arr.elems))])
    _ask(ctx, defs2, z3.And(pre2, s == sb), "past markers differ for equal s (different n, E)", vec_differs(past, pastb), (s, n, e, nb, eb), cap, fails, unknowns)
    _ask(ctx, defs2, z3.And(pre2, n == nb, e == eb), "future markers differ for equal (n, E) (different s)", vec_differs(fut, futb), (s, n, e, sb), cap, fails, unknowns)
    return _finish(ctx, t0, ob, fails, unknowns, extra={"symex_stats": ex.stats, "defs": len(ex.defs)},
                   witness=(v == "sat") and "sat twin: " + json.dumps(model))


def ob_m6(ob, tier, seed):
    """real vectors == specification predicates (as sets)"""
    t0 = time.time()
    ctx = Ctx(ob["width"])
    ex, (s, n, e), r, past, fut = ctx.run_gmv("a")
    x = z3.BitVec("x", 64)
    pre = z3.And(z3.UGE(s, 1), z3.ULE(s, n), z3.ULE(n, e), ctx.wpre(e), ctx.dom(s, n))
    cap = ob["query_cap_s"]
    fails, unknowns = [], []
    V = (s, n, e, x)
    part = ob.get("part", "all")
    if part in ("all", "past"):
        _ask(ctx, ex.defs, pre, "x in real past(s) but not in spec_past(x, s)", z3.And(vec_contains(past, x), z3.Not(spec_in_past(x, s))), V, cap, fails, unknowns, xcheck=True)
        _ask(ctx, ex.defs, pre, "x in spec_past(x, s) but not in real past(s)", z3.And(spec_in_past(x, s), z3.Not(vec_contains(past, x))), V, cap, fails, unknowns)
    if part in ("all", "fut_fwd"):
        _ask(ctx, ex.defs, pre, "x in real future(n,E) but not in spec_future", z3.And(vec_contains(fut, x), z3.Not(spec_in_future(x, n, e))), V, cap, fails, unknowns, xcheck=True)
    if part in ("all", "fut_bwd"):
        _ask(ctx, ex.defs, pre, "x in spec_future but not in real future(n,E)", z3.And(spec_in_future(x, n, e), z3.Not(vec_contains(fut, x))), V, cap, fails, unknowns, xcheck=(part != "all"))
    if part == "fut_bwd_x":
        # cheaper variant: the candidate marker x is itself restricted to the sparse-bit domain
        _ask(ctx, ex.defs, z3.And(pre, ctx.dom(x)), "x (sparse) in spec_future but not in real future(n,E)", z3.And(spec_in_future(x, n, e), z3.Not(vec_contains(fut, x))), V, cap, fails, unknowns, xcheck=True)
    if part == "all":
        v, dt, model = decide(ex.defs, pre, z3.And(vec_contains(fut, x), vec_contains(past, x - 1)), cap, V)
        _record(ctx, None, "witness: some x is a future marker while x-1 is a past marker", "sat", v, dt, None, model)
    else:
        v, dt, model = decide(ex.defs, pre, z3.And(z3.UGE(n, bvv(1 << 32)), z3.UGT(fut.len, 1)), cap, V)
        _record(ctx, None, "witness: some n >= 2^32 in the domain has more than one future marker", "sat", v, dt, None, model)
    return _finish(ctx, t0, ob, fails, unknowns, extra={"defs": len(ex.defs)}, witness=(v == "sat") and "sat twin: " + json.dumps(model))


def ob_m2(ob, tier, seed):
    """history/history intersection on the real code's outputs"""
    t0 = time.time()
    ctx = Ctx(ob["width"])
    exa, (sa, na, ea), ra, pasta, futa = ctx.run_gmv("a")      # history [sa..na] at epoch E
    exb, (sb, nb, eb), rb, pastb, futb = ctx.run_gmv("b")      # history [sb..nb] at the same epoch
    defs = exa.defs + exb.defs
    pre = z3.And(z3.UGE(sa, 1), z3.ULE(sa, na), z3.ULE(na, ea), z3.UGE(sb, 1), z3.ULE(sb, nb), z3.ULE(nb, eb), ea == eb,
                 z3.ULT(na, nb), ctx.wpre(ea), ctx.dom(sa, na, sb, nb))
    cap = ob["query_cap_s"]
    fails, unknowns = [], []
    V = (sa, na, ea, sb, nb)
    # no element of future(na,E) lies in [sb..nb] or in past(sb)
    no_common = z3.And(*[z3.Or(z3.ULE(futa.len, bvv(k)),
                               z3.And(z3.Or(z3.ULT(futa.arr.elems[k], sb), z3.UGT(futa.arr.elems[k], nb)),
                                      z3.Not(vec_contains(pastb, futa.arr.elems[k]))))
                         for k in range(len(futa.arr.elems))])
    _ask(ctx, defs, pre, "two histories with latest versions n < m: future(n,E) misses [s2..m] u past(s2)", no_common, V, cap, fails, unknowns, xcheck=True)
    v, dt, model = decide(defs, pre, z3.And(z3.UGT(sb, na + 1), z3.UGT(pastb.len, 0)), cap, V)
    _record(ctx, None, "witness: histories with s2 > n+1 exist (the intersection then needs a marker)", "sat", v, dt, None, model)
    return _finish(ctx, t0, ob, fails, unknowns, extra={"defs": len(defs)}, witness=(v == "sat") and "sat twin: " + json.dumps(model))


def ob_m4(ob, tier, seed):
    """lookup(m) vs complete history(n), m > n. Known finding F-C08: the hole
       K(n,m,E) = {m, 2^floor(log m)} /\\ spec_future(n,E) = {}  is satisfiable.
       Violation = a hole of the REAL code that is not explained by K."""
    t0 = time.time()
    ctx = Ctx(ob["width"])
    ex, (s, n, e), r, past, fut = ctx.run_gmv("a")
    m = z3.BitVec("m", 64)
    pre = z3.And(s == 1, z3.UGE(n, 1), z3.ULE(n, e), z3.ULT(n, m), z3.ULE(m, e), ctx.wpre(e), ctx.dom(n, m))
    cap = ob["query_cap_s"]
    fails, unknowns = [], []
    V = (n, m, e)
    mk = floor_pow2(m)
    real_hole = z3.And(z3.Not(vec_contains(fut, m)), z3.Not(vec_contains(fut, mk)))
    spec_hole = z3.And(z3.Not(spec_in_future(m, n, e)), z3.Not(spec_in_future(mk, n, e)))
    _ask(ctx, ex.defs, pre, "hole of the real code not explained by the documented construction (real_hole and not K)", z3.And(real_hole, z3.Not(spec_hole)), V, cap, fails, unknowns, xcheck=True)
    known = []
    v, dt, model = decide(ex.defs, pre, z3.And(real_hole, spec_hole), cap, V)
    _record(ctx, None, "known finding F-C08 present (real_hole and K satisfiable)", "sat (known finding)", v, dt, None, model)
    if v == "sat":
        known.append({"what": "F-C08 lookup(m) does not conflict with a complete history ending at n<m when neither m nor 2^floor(log2 m) is a future marker of (n,E); "
                              "solver witness (E,n,m)=(%d,%d,%d); smallest instance (7,4,7)" % (model["a_E"], model["a_n"], model["m"]),
                      "predicate": "m>n and {m, 2^floor(log2 m)} disjoint from spec_future(n,E)"})
    elif v != "unsat":
        unknowns.append("known-finding query")
    return _finish(ctx, t0, ob, fails, unknowns, extra={"defs": len(ex.defs)}, witness=True, known=known)


def ob_m5(ob, tier, seed):
    """server/verifier marker agreement (64 bit, loop-free)"""
    t0 = time.time()
    ctx = Ctx(64)
    funcs_akd, mir_s, mir_lines = dump_mir("akd")
    v_ = z3.BitVec("v", 64)
    ex1 = symex.Executor(ctx.funcs, unwind=4)
    r1 = ex1.run("get_marker_version_log2", [v_])
    ex2 = symex.Executor(funcs_akd, unwind=4)
    ex2._fresh = 5000000
    r2 = ex2.run("get_marker_version", [v_])
    defs = ex1.defs + ex2.defs
    pre = z3.UGE(v_, 1)
    cap = ob["query_cap_s"]
    fails, unknowns = [], []
    V = (v_,)
    _ask(ctx, defs, pre, "verifier's get_marker_version_log2 panics for some v >= 1", r1.panicked, V, cap, fails, unknowns, xcheck=True)
    _ask(ctx, defs, pre, "server's directory::get_marker_version panics for some v >= 1", r2.panicked, V, cap, fails, unknowns)
    _ask(ctx, defs, pre, "server and verifier marker exponents differ", r1.ret != r2.ret, V, cap, fails, unknowns, xcheck=True)
    _ask(ctx, defs, pre, "1 << exponent is not the largest power of two <= v", (bvv(1) << r1.ret) != floor_pow2(v_), V, cap, fails, unknowns)
    v, dt, model = decide(defs, z3.BoolVal(True), z3.And(v_ == 0, r1.panicked), cap, V)
    _record(ctx, None, "witness: version 0 does panic the verifier helper (assert reachable)", "sat", v, dt, None, model)
    return _finish(ctx, t0, ob, fails, unknowns, extra={"akd_mir_dump_s": mir_s, "akd_mir_lines": mir_lines}, witness=(v == "sat") and "sat twin: v = 0 panics")


def ob_spec64(ob, tier, seed):
    """M2 / M4 on the specification predicates alone, at 64 bits (no width bound): supporting
       evidence only -- the link to the real code is M6 at its stated width."""
    t0 = time.time()
    ctx = Ctx(64)
    n, e, s2, m, x = z3.BitVecs("n E s2 m x", 64)
    cap = ob["query_cap_s"]
    fails, unknowns = [], []
    # M2 on spec: exists x in spec_future(n,E) with x in [s2..m] or x in spec_past(s2): show that x = n+1 or ... cannot be expressed
    # without a quantifier; instead check the two standard witnesses: n+1, and the smallest future marker >= s2's floor marker.
    pre = z3.And(z3.UGE(n, 1), z3.ULT(n, m), z3.ULE(m, e), z3.UGE(s2, 1), z3.ULE(s2, m))
    # witness candidates: n+1 (always a future marker), floor_pow2(s2) ... try a small family of candidates
    cands = [n + 1, floor_pow2(s2), skip_floor(s2), floor_pow2(m), skip_floor(m)]
    hit = z3.Or(*[z3.And(spec_in_future(c, n, e), z3.Or(z3.And(z3.UGE(c, s2), z3.ULE(c, m)), spec_in_past(c, s2))) for c in cands])
    v, dt, model = decide([], pre, z3.Not(hit), cap, (n, m, e, s2))
    _record(ctx, None, "spec-level M2 via candidate witnesses {n+1, 2^floor(log s2), skip(s2), 2^floor(log m), skip(m)}", "unsat (informational)", v, dt, None, model)
    return _finish(ctx, t0, ob, [], [] if v in ("sat", "unsat") else ["spec64"], extra={"informational": True, "verdict_spec_m2": v, "model": model}, witness=True)


def ob_writer(ob, tier, seed):
    from . import writer
    funcs, mir_s, mir_lines = dump_mir("akd")
    res = writer.run_obligation(ob, tier, seed, funcs)
    res.setdefault("extra", {})["akd_mir_dump_s"] = mir_s
    return res


def run_native_hist():
    """Native confirmation battery for the history glue (real server, VRF, hashes, verifier of /repo)."""
    env = dict(os.environ)
    env["CARGO_NET_OFFLINE"] = "true"
    env.pop("RUSTFLAGS", None)
    tdir = os.path.join(BUILD, "native_hist")
    p = subprocess.run(["cargo", "build", "--release", "--offline", "--target-dir", tdir], cwd=os.path.join(VERIF, "native_hist"), env=env,
                       stdout=subprocess.PIPE, stderr=subprocess.STDOUT, timeout=3600)
    if p.returncode != 0:
        return {"status": "error", "detail": "native_hist build failed: " + p.stdout.decode(errors="replace")[-300:]}
    try:
        q = subprocess.run([os.path.join(tdir, "release", "native_hist")], stdout=subprocess.PIPE, stderr=subprocess.STDOUT, timeout=1200)
    except subprocess.TimeoutExpired:
        return {"status": "error", "detail": "native_hist timed out"}
    out = q.stdout.decode(errors="replace")
    fl = [l for l in out.splitlines() if l.startswith("FAIL ")]
    if q.returncode == 1 and fl:
        return {"status": "reproduced", "detail": fl[0], "lines": fl[:20]}
    if q.returncode == 0:
        return {"status": "not_reproduced", "detail": "the native battery (real server and verifier, histories with up to 32 versions, every component tampered with) passed"}
    return {"status": "error", "detail": "native_hist: " + out[-300:]}


def run_native_bin(name, timeout=1200):
    env = dict(os.environ)
    env["CARGO_NET_OFFLINE"] = "true"
    env.pop("RUSTFLAGS", None)
    tdir = os.path.join(BUILD, "native_hist")
    p = subprocess.run(["cargo", "build", "--release", "--offline", "--target-dir", tdir], cwd=os.path.join(VERIF, "native_hist"), env=env,
                       stdout=subprocess.PIPE, stderr=subprocess.STDOUT, timeout=3600)
    if p.returncode != 0:
        return {"status": "error", "detail": "native battery build failed: " + p.stdout.decode(errors="replace")[-300:]}
    try:
        q = subprocess.run([os.path.join(tdir, "release", name)], stdout=subprocess.PIPE, stderr=subprocess.STDOUT, timeout=timeout)
    except subprocess.TimeoutExpired:
        return {"status": "error", "detail": name + " timed out"}
    out = q.stdout.decode(errors="replace")
    fl = [l for l in out.splitlines() if l.startswith("FAIL ")]
    if q.returncode == 1 and fl:
        return {"status": "reproduced", "detail": fl[0], "lines": fl[:20]}
    if q.returncode == 0:
        return {"status": "not_reproduced", "detail": "the native battery %s (real code of /repo) passed" % name}
    return {"status": "error", "detail": name + ": " + out[-300:]}


def ob_txn(ob, tier, seed):
    from . import txn
    funcs, mir_s, mir_lines = dump_mir("akd")
    res = txn.run_obligation(ob, tier, seed, funcs)
    res.setdefault("extra", {})["akd_mir_dump_s"] = mir_s
    if res["verdict"] == "fail":
        rp = run_native_bin("native_txn")
        if rp["status"] == "reproduced":
            os.makedirs(REPLAYS, exist_ok=True)
            pid = ob["id"].split(".")[0]
            path = os.path.join(REPLAYS, "%s_%s.json" % (pid, ob["id"].replace(".", "_")))
            json.dump({"property": pid, "obligation": ob["id"], "kind": "txn", "failed": res.get("failures"), "native": rp.get("lines")}, open(path, "w"), indent=1)
            rp["path"] = path
        res["replay"] = rp
    return res


def ob_epochreads(ob, tier, seed):
    from . import epochreads
    funcs, mir_s, mir_lines = dump_mir("akd")
    res = epochreads.run_obligation(ob, tier, seed, funcs)
    res.setdefault("extra", {})["akd_mir_dump_s"] = mir_s
    if res["verdict"] == "fail":
        rp = run_native_bin("native_stitch")
        if rp["status"] == "reproduced":
            os.makedirs(REPLAYS, exist_ok=True)
            path = os.path.join(REPLAYS, "C13_%s.json" % ob["id"].replace(".", "_"))
            json.dump({"property": "C13", "obligation": ob["id"], "kind": "epochreads", "failed": res.get("failures"), "native": rp.get("lines")}, open(path, "w"), indent=1)
            rp["path"] = path
        res["replay"] = rp
    return res


def ob_commit(ob, tier, seed):
    from . import commitw
    funcs, mir_s, mir_lines = dump_mir("akd")
    res = commitw.run_obligation(ob, tier, seed, funcs)
    res.setdefault("extra", {})["akd_mir_dump_s"] = mir_s
    if res["verdict"] == "fail":
        rp = run_native_bin("native_commitfail")
        if rp["status"] == "reproduced":
            os.makedirs(REPLAYS, exist_ok=True)
            path = os.path.join(REPLAYS, "C10_%s.json" % ob["id"].replace(".", "_"))
            json.dump({"property": "C10", "obligation": ob["id"], "kind": "commit", "failed": res.get("failures"), "native": rp.get("lines")}, open(path, "w"), indent=1)
            rp["path"] = path
        res["replay"] = rp
    return res


def ob_publish(ob, tier, seed):
    from . import publishw
    funcs, mir_s, mir_lines = dump_mir("akd")
    res = publishw.run_obligation(ob, tier, seed, funcs)
    res.setdefault("extra", {})["akd_mir_dump_s"] = mir_s
    if res["verdict"] == "fail":
        rp = run_native_bin("native_commitfail")
        if rp["status"] == "reproduced":
            os.makedirs(REPLAYS, exist_ok=True)
            path = os.path.join(REPLAYS, "C10_%s.json" % ob["id"].replace(".", "_"))
            json.dump({"property": "C10", "obligation": ob["id"], "kind": "commit", "failed": res.get("failures"), "native": rp.get("lines")}, open(path, "w"), indent=1)
            rp["path"] = path
        res["replay"] = rp
    return res


def ob_cache(ob, tier, seed):
    from . import cachew
    funcs, mir_s, mir_lines = dump_mir("akd")
    res = cachew.run_obligation(ob, tier, seed, funcs)
    res.setdefault("extra", {})["akd_mir_dump_s"] = mir_s
    if res["verdict"] == "fail":
        rp = run_native_bin("native_cache")
        if rp["status"] == "reproduced":
            os.makedirs(REPLAYS, exist_ok=True)
            path = os.path.join(REPLAYS, "C16_%s.json" % ob["id"].replace(".", "_"))
            json.dump({"property": "C16", "obligation": ob["id"], "kind": "cache", "failed": res.get("failures"), "native": rp.get("lines")}, open(path, "w"), indent=1)
            rp["path"] = path
        res["replay"] = rp
    return res


def ob_bulk(ob, tier, seed):
    from . import bulkw
    funcs, mir_s, mir_lines = dump_mir("akd")
    res = (bulkw.run_wiring if ob.get("kind") == "bulkwiring" else bulkw.run_obligation)(ob, tier, seed, funcs, "/repo")
    res.setdefault("extra", {})["akd_mir_dump_s"] = mir_s
    if res["verdict"] == "fail":
        rp = run_native_bin("native_bulk")
        if rp["status"] == "reproduced":
            os.makedirs(REPLAYS, exist_ok=True)
            path = os.path.join(REPLAYS, "C15_%s.json" % ob["id"].replace(".", "_"))
            json.dump({"property": "C15", "obligation": ob["id"], "kind": "bulk", "failed": res.get("failures"), "native": rp.get("lines")}, open(path, "w"), indent=1)
            rp["path"] = path
        res["replay"] = rp
    return res


def ob_glue(ob, tier, seed):
    from . import histglue
    funcs, mir_s, mir_lines = dump_mir("akd_core")
    res = histglue.run_obligation(ob, tier, seed, funcs)
    res.setdefault("extra", {})["akd_core_mir_dump_s"] = mir_s
    if res["verdict"] == "fail":
        rp = run_native_hist()
        if rp["status"] == "reproduced":
            os.makedirs(REPLAYS, exist_ok=True)
            path = os.path.join(REPLAYS, "C07_%s.json" % ob["id"].replace(".", "_"))
            json.dump({"property": "C07", "obligation": ob["id"], "kind": "glue", "failed": res.get("failures"), "native": rp.get("lines")}, open(path, "w"), indent=1)
            rp["path"] = path
        res["replay"] = rp
    return res


RUNNERS = {"bulk": ob_bulk, "bulkwiring": ob_bulk, "cache": ob_cache, "commit": ob_commit, "publish": ob_publish, "glue": ob_glue, "txn": ob_txn, "epochreads": ob_epochreads, "writer": ob_writer, "validate": ob_validate, "m1": ob_m1, "m2": ob_m2, "m4": ob_m4, "m5": ob_m5, "m6": ob_m6, "spec64": ob_spec64}


def run_obligation(ob, tier, seed):
    try:
        return RUNNERS[ob["kind"]](ob, tier, seed)
    except symex.Unsupported as ex:
        return {"engine": "mir", "verdict": "inconclusive", "reason": "MIR construct outside the encoder's fragment: %s" % ex, "wall_s": 0, "queries": 0}


# ---- replay --------------------------------------------------------------------------------------
def _replay_marker(ob, fails):
    """Re-run the REAL function natively on the solver's inputs and re-evaluate the property."""
    os.makedirs(REPLAYS, exist_ok=True)
    name, model = fails[0]
    path = os.path.join(REPLAYS, "C08_%s.json" % ob["id"].replace(".", "_"))
    rec = {"property": "C08", "obligation": ob["id"], "kind": ob["kind"], "query": name, "model": model}
    json.dump(rec, open(path, "w"), indent=1)
    st = replay_record(rec)
    st["path"] = path
    return st


def _native_sets(s, n, e):
    r = native_gmv([(s, n, e)])[0]
    return r


def _py_spec_future(n, e):
    out = set()
    bl = n.bit_length()
    for i in range(bl):
        if not (n >> i) & 1:
            x = ((n >> i) | 1) << i
            if x <= e:
                out.add(x)
    nxt = [k for k in SKIP if n < k <= e]
    j = n.bit_length()
    while (1 << j) <= e:
        if nxt and (1 << j) >= nxt[0]:
            break
        out.add(1 << j)
        j += 1
    out.update(nxt)
    return out


def _py_spec_past(s):
    out = set()
    k = max(x for x in SKIP if x <= s)
    if k != s:
        out.add(k)
    p = 1 << (s.bit_length() - 1)
    if p != s:
        out.add(p)
    for i in range(s.bit_length()):
        if (s >> i) & 1:
            x = s & ~((1 << (i + 1)) - 1)
            if x:
                out.add(x)
    return out


def replay_record(rec):
    rebuild_native()
    m = rec.get("model") or {}
    kind = rec["kind"]
    g = lambda k, d=1: m.get(k, d)
    try:
        if kind in ("m1", "m6"):
            s, n, e = g("a_s"), g("a_n"), g("a_E")
            r = _native_sets(s, n, e)
            if r is None:
                return {"status": "reproduced", "detail": "real get_marker_versions(%d,%d,%d) panics" % (s, n, e)}
            past, fut = r
            ok = (all(1 <= x < s for x in past) and past == sorted(set(past)) and all(n < x <= e for x in fut) and fut == sorted(set(fut))
                  and set(past) == _py_spec_past(s) and set(fut) == _py_spec_future(n, e))
            return {"status": "not_reproduced" if ok else "reproduced",
                    "detail": "real get_marker_versions(%d,%d,%d) = %s | %s; documented construction = %s | %s" % (s, n, e, past, fut, sorted(_py_spec_past(s)), sorted(_py_spec_future(n, e)))}
        if kind == "m2":
            na, e, sb, nb = g("a_n"), g("a_E"), g("b_s"), g("b_n")
            ra = _native_sets(g("a_s"), na, e)
            rb = _native_sets(sb, nb, e)
            if ra is None or rb is None:
                return {"status": "reproduced", "detail": "real function panics on the witness"}
            common = set(ra[1]) & (set(range(sb, nb + 1)) | set(rb[0]))
            return {"status": "not_reproduced" if common else "reproduced",
                    "detail": "future(%d,%d)=%s, [s2..m]=[%d..%d], past(s2)=%s, common=%s" % (na, e, ra[1], sb, nb, rb[0], sorted(common))}
        if kind == "m4":
            n, mm, e = g("a_n"), g("m"), g("a_E")
            r = _native_sets(1, n, e)
            if r is None:
                return {"status": "reproduced", "detail": "real function panics on the witness"}
            mk = 1 << (mm.bit_length() - 1)
            real_hole = mm not in r[1] and mk not in r[1]
            sf = _py_spec_future(n, e)
            spec_hole = mm not in sf and mk not in sf
            return {"status": "reproduced" if (real_hole and not spec_hole) else "not_reproduced",
                    "detail": "future(%d,%d)=%s lookup presents {%d,%d}; documented future=%s" % (n, e, r[1], mm, mk, sorted(sf))}
        if kind == "m5":
            return {"status": "reproduced", "detail": "marker exponent mismatch for v=%d (loop-free functions; see query)" % g("v")}
    except Exception as ex:  # pragma: no cover
        return {"status": "error", "detail": repr(ex)}
    return {"status": "error", "detail": "no replay for kind " + kind}


def replay_file(path):
    rec = json.load(open(path))
    if rec.get("kind") == "writer":
        # a statement about the MIR of the writer itself: re-run the analysis on the current tree
        prepare()
        r = ob_writer({"id": rec["obligation"]}, "quick", 0)
        print("replay %s %s: %s" % (rec["property"], rec["obligation"], r["verdict"] + " " + r.get("reason", "")))
        if r["verdict"] == "fail":
            print("VIOLATION property=%s replay=%s" % (rec["property"], path))
            return 1
        return 0 if r["verdict"] == "pass" else 2
    if rec.get("kind") == "glue":
        st = run_native_hist()
    elif rec.get("kind") == "txn":
        st = run_native_bin("native_txn")
    elif rec.get("kind") == "epochreads":
        st = run_native_bin("native_stitch")
    elif rec.get("kind") == "commit":
        st = run_native_bin("native_commitfail")
    elif rec.get("kind") == "cache":
        st = run_native_bin("native_cache")
    elif rec.get("kind") == "bulk":
        st = run_native_bin("native_bulk")
    else:
        st = replay_record(rec)
    print("replay %s %s: %s (%s)" % (rec["property"], rec["obligation"], st["status"], st.get("detail", "")))
    if st["status"] == "reproduced":
        print("VIOLATION property=%s replay=%s" % (rec["property"], path))
        return 1
    return 0 if st["status"] == "not_reproduced" else 2


if __name__ == "__main__":
    # worker mode: one obligation per process (the z3 Python API is not thread-safe)
    import sys
    req = json.load(sys.stdin)
    res = run_obligation(req["ob"], req["tier"], req["seed"])
    sys.stdout.write("\n@@RESULT@@" + json.dumps(res, default=str))
