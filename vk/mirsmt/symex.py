"""Bounded symbolic executor for a small MIR fragment, producing z3 terms.

* integers are bit-vectors of the source width; checked arithmetic follows MIR literally
  (`AddWithOverflow` + `assert`), a failed `assert` / `panic_fmt` sets the `panicked` condition;
* control flow: natural loops are unrolled K times into a DAG, states are merged with `ite` at
  joins (no path enumeration); "the back edge is still feasible after K iterations" is returned
  as `unwind_exceeded` and must be shown unsatisfiable by the caller (unwinding assertion);
* `Vec<u64>` = (SMT array, length); slices = (array, offset, length); `Range`/`Rev<Range>` =
  records of bit-vectors; references to locals are places;
* the std entry points with a semantic model are listed in STD_MODELS (trusted base).
Anything outside the fragment raises Unsupported: the obligation is then reported inconclusive.
"""
import re
import z3

from .mirparse import split_args


class Unsupported(Exception):
    pass


WIDTH = {"u8": 8, "u16": 16, "u32": 32, "u64": 64, "usize": 64, "i8": 8, "i16": 16, "i32": 32,
         "i64": 64, "isize": 64, "u128": 128, "i128": 128}
SIGNED = {"i8", "i16", "i32", "i64", "isize", "i128"}

STD_MODELS = [
    "Vec::<u64>::new", "Vec::<u64>::push", "Vec::<u64>::len", "Vec::<u64>::is_empty",
    "<Vec<u64> as Index<usize>>::index", "Vec::<u64>::extend_from_slice",
    "<Range<u64> as IntoIterator>::into_iter", "<Range<u64> as Iterator>::next",
    "<Range<u64> as Iterator>::rev", "<Rev<Range<u64>> as IntoIterator>::into_iter",
    "<Rev<Range<u64>> as Iterator>::next", "core::num::<impl u64>::leading_zeros",
    "core::slice::<impl [u64]>::is_empty", "<[u64; N] as Index<Range<usize>>>::index",
    "Arguments::from_str", "panic_fmt", "<u32 as Into<u64>>::into", "cmp::min/max::<uN>",
    "u64::{is_power_of_two,trailing_zeros,count_ones,ilog2,wrapping_*,saturating_*,abs_diff,checked_add/sub}",
]


def bv(ty, v):
    return z3.BitVecVal(v, WIDTH[ty])


# ---- structured values -------------------------------------------------------------------------
class Tup:
    def __init__(self, items):
        self.items = list(items)


class Rec:
    """struct-like record (Range, Rev, Option)"""
    def __init__(self, kind, fields):
        self.kind = kind
        self.fields = dict(fields)


class VecV:
    def __init__(self, arr, length):
        self.arr = arr
        self.len = length


class SliceV:
    def __init__(self, arr, off, length):
        self.arr = arr
        self.off = off
        self.len = length


class ArrV:
    """fixed-size array [T; n] as an SMT array plus concrete length"""
    def __init__(self, arr, n):
        self.arr = arr
        self.n = n


class Ref:
    """reference to a place (local name + projection) in the current frame"""
    def __init__(self, frame, place):
        self.frame = frame
        self.place = place


class ValRef:
    """reference to a value that lives nowhere (result of Index::index, promoted constants)"""
    def __init__(self, val):
        self.val = val


class Unit:
    pass


UNIT = Unit()


class LArr:
    """Sequence contents as a fixed-capacity list of bit-vectors (pure QF_BV encoding: reads and
    writes at symbolic positions are ite chains). Capacity overflow is reported by the models
    that grow a sequence (Vec::push / extend_from_slice) through the `unwind_exceeded` channel."""
    def __init__(self, elems):
        self.elems = list(elems)

    def eq(self, other):
        return self is other or (len(self.elems) == len(other.elems) and all(a.eq(b) for a, b in zip(self.elems, other.elems)))


VEC_CAP = 140


def arr_new(width=64, cap=None):
    return LArr([z3.BitVecVal(0, width)] * (cap or VEC_CAP))


def arr_sel(arr, idx):
    if isinstance(arr, LArr):
        if z3.is_bv_value(idx):
            k = idx.as_long()
            return arr.elems[k] if k < len(arr.elems) else z3.BitVecVal(0, arr.elems[0].size())
        r = z3.BitVecVal(0, arr.elems[0].size())
        for k in range(len(arr.elems) - 1, -1, -1):
            r = z3.If(idx == z3.BitVecVal(k, idx.size()), arr.elems[k], r)
        return r
    return z3.Select(arr, idx)


def arr_sto(arr, idx, val):
    if isinstance(arr, LArr):
        if z3.is_bv_value(idx):
            k = idx.as_long()
            e = list(arr.elems)
            if k < len(e):
                e[k] = val
            return LArr(e)
        return LArr([z3.If(idx == z3.BitVecVal(k, idx.size()), val, arr.elems[k]) for k in range(len(arr.elems))])
    return z3.Store(arr, idx, val)


def arr_ite(c, a, b):
    if isinstance(a, LArr):
        if a.eq(b):
            return a
        return LArr([x if x.eq(y) else z3.If(c, x, y) for x, y in zip(a.elems, b.elems)])
    return a if a.eq(b) else z3.If(c, a, b)


def _ite(c, a, b):
    return a if a.eq(b) else z3.If(c, a, b)


def merge(c, a, b):
    """ite(c, a, b) over structured values"""
    if a is None:
        return b
    if b is None:
        return a
    if a is b:
        return a
    if isinstance(a, Unit) or isinstance(b, Unit):
        return a if not isinstance(a, Unit) else b
    if isinstance(a, Tup):
        return Tup(merge(c, x, y) for x, y in zip(a.items, b.items))
    if isinstance(a, Rec):
        if not isinstance(b, Rec) or a.kind != b.kind:
            raise Unsupported("merge of different records")
        return Rec(a.kind, {k: merge(c, a.fields[k], b.fields[k]) for k in a.fields})
    if isinstance(a, VecV):
        return VecV(arr_ite(c, a.arr, b.arr), _ite(c, a.len, b.len))
    if isinstance(a, SliceV):
        return SliceV(arr_ite(c, a.arr, b.arr), _ite(c, a.off, b.off), _ite(c, a.len, b.len))
    if isinstance(a, ArrV):
        return ArrV(arr_ite(c, a.arr, b.arr), a.n)
    if isinstance(a, Ref):
        if isinstance(b, Ref) and a.place == b.place and a.frame is b.frame:
            return a
        raise Unsupported("merge of different references")
    if isinstance(a, ValRef):
        return ValRef(merge(c, a.val, b.val))
    if z3.is_expr(a) and z3.is_expr(b) and a.eq(b):
        return a
    return z3.If(c, a, b)


class Frame:
    def __init__(self, func):
        self.func = func
        self.locals = {}


class State:
    def __init__(self, guard, locals_):
        self.guard = guard
        self.locals = locals_


class Result:
    def __init__(self):
        self.ret = None
        self.ret_guard = z3.BoolVal(False)
        self.panicked = z3.BoolVal(False)
        self.unwind_exceeded = z3.BoolVal(False)


class Executor:
    def __init__(self, funcs, unwind=66):
        self.funcs = funcs
        self.unwind = unwind
        self.vec_cap = 2 * unwind + 10
        self.stats = {"blocks_executed": 0, "calls_inlined": 0, "merges": 0, "std_calls": {}}
        self.const_cache = {}
        self.defs = []      # defining equations of the named intermediate terms (SSA style)
        self._fresh = 0

    def named(self, e, prefix="t"):
        """Give a compound term a fresh name (keeps terms small; no exponential ite trees)."""
        if isinstance(e, LArr):
            return LArr([self.named(x, prefix) for x in e.elems])
        if not z3.is_expr(e):
            return e
        if z3.is_const(e) or e.num_args() == 0:
            return e
        self._fresh += 1
        c = z3.Const("%s!%d" % (prefix, self._fresh), e.sort())
        self.defs.append(c == e)
        return c

    def named_val(self, v, prefix="m"):
        if v is None or isinstance(v, (Unit, Ref)):
            return v
        if isinstance(v, Tup):
            return Tup(self.named_val(x, prefix) for x in v.items)
        if isinstance(v, Rec):
            return Rec(v.kind, {k: self.named_val(x, prefix) for k, x in v.fields.items()})
        if isinstance(v, VecV):
            return VecV(self.named(v.arr, prefix), self.named(v.len, prefix))
        if isinstance(v, SliceV):
            return SliceV(self.named(v.arr, prefix), self.named(v.off, prefix), self.named(v.len, prefix))
        if isinstance(v, ArrV):
            return ArrV(self.named(v.arr, prefix), v.n)
        if isinstance(v, ValRef):
            return ValRef(self.named_val(v.val, prefix))
        return self.named(v, prefix)

    def g_and(self, a, b):
        if z3.is_false(a) or z3.is_false(b):
            return z3.BoolVal(False)
        if z3.is_true(a):
            return b
        if z3.is_true(b):
            return a
        return self.named(z3.And(a, b), "g")

    def g_or(self, a, b):
        if z3.is_true(a) or z3.is_true(b):
            return z3.BoolVal(True)
        if z3.is_false(a):
            return b
        if z3.is_false(b):
            return a
        return self.named(z3.Or(a, b), "g")

    # ---- name resolution -----------------------------------------------------------------------
    def lookup(self, name):
        if name in self.funcs:
            return self.funcs[name]
        last = name.split("::")[-1]
        cands = [f for n, f in self.funcs.items() if n.split("::")[-1] == last]
        if len(cands) == 1:
            return cands[0]
        # prefer longest common suffix
        cands = [f for n, f in self.funcs.items() if n.endswith(name) or name.endswith(n)]
        if len(cands) == 1:
            return cands[0]
        return None

    # ---- CFG unrolling -------------------------------------------------------------------------
    def _cfg(self, func):
        succ = {}
        for name, b in func.blocks.items():
            if b.cleanup:
                continue
            succ[name] = [t for t in self._targets(b.term) if not func.blocks[t].cleanup]
        return succ

    def _targets(self, term):
        t = term
        if t.startswith("goto -> "):
            return [t[len("goto -> "):]]
        if t.startswith("switchInt("):
            return re.findall(r": (bb\d+)", t)
        m = re.search(r"-> \[(.*)\]$", t)
        if m:
            out = []
            for part in m.group(1).split(","):
                part = part.strip()
                k, _, v = part.partition(": ")
                if k in ("success", "return") and v.startswith("bb"):
                    out.append(v)
            return out
        m = re.search(r"-> (bb\d+)$", t)
        if m:
            return [m.group(1)]
        return []

    def _loops(self, succ, entry="bb0"):
        """natural loops: returns (rpo order, {header: body set}, back edges)"""
        order, seen, onstack, back = [], set(), set(), []
        def dfs(u):
            seen.add(u)
            onstack.add(u)
            for v in succ.get(u, []):
                if v not in seen:
                    dfs(v)
                elif v in onstack:
                    back.append((u, v))
            onstack.discard(u)
            order.append(u)
        import sys
        sys.setrecursionlimit(10000)
        dfs(entry)
        rpo = list(reversed(order))
        pred = {}
        for u, vs in succ.items():
            for v in vs:
                pred.setdefault(v, []).append(u)
        loops = {}
        for u, h in back:
            body = {h}
            stack = [u]
            while stack:
                x = stack.pop()
                if x not in body:
                    body.add(x)
                    stack.extend(pred.get(x, []))
            loops.setdefault(h, set()).update(body)
        hs = list(loops)
        for a in hs:
            for b in hs:
                if a != b and loops[a] & loops[b]:
                    raise Unsupported("nested or overlapping loops")
        return rpo, loops, back

    # ---- execution of one function -------------------------------------------------------------
    def run(self, fname, args, guard=None):
        func = self.lookup(fname)
        if func is None:
            raise Unsupported("function not found in MIR dump: " + fname)
        guard = z3.BoolVal(True) if guard is None else guard
        succ = self._cfg(func)
        rpo, loops, back = self._loops(succ)
        rpo_idx = {b: i for i, b in enumerate(rpo)}
        loop_of = {}
        for h, body in loops.items():
            for b in body:
                loop_of[b] = h
        backset = set(back)
        res = Result()
        frame = Frame(func)
        init = {}
        for (loc, ty), v in zip(func.args, args):
            init[loc] = v
        # worklist of node instances (bb, k); ordered so that every predecessor instance comes first
        pending = {("bb0", 0): State(guard, init)}
        def key_order(key):
            bb, k = key
            h = loop_of.get(bb)
            if h is None:
                return (rpo_idx[bb], 0, 0)
            # all instances of a loop are ordered at the header's position: iteration, then rpo
            return (rpo_idx[h], k + 1, rpo_idx[bb])
        while pending:
            key = min(pending, key=key_order)
            st = pending.pop(key)
            bb, k = key
            self.stats["blocks_executed"] += 1
            if bb in loops and k >= 1:
                # loop-carried state: name every compound value so that terms stay small
                st.locals = {n_: self.named_val(v_, "l") for n_, v_ in st.locals.items()}
            frame.locals = st.locals
            outs = self._exec_block(func, frame, func.blocks[bb], st.guard, res)
            for tgt, g, locs in outs:
                if z3.is_false(g):
                    continue
                if (bb, tgt) in backset:
                    nk = k + 1
                    if nk >= self.unwind:
                        res.unwind_exceeded = self.g_or(res.unwind_exceeded, g)
                        continue
                    nkey = (tgt, nk)
                elif tgt in loop_of and loop_of.get(bb) == loop_of[tgt]:
                    nkey = (tgt, k)
                else:
                    nkey = (tgt, 0)
                if nkey in pending:
                    old = pending[nkey]
                    self.stats["merges"] += 1
                    ng = self.g_or(old.guard, g)
                    merged = {}
                    for name in set(old.locals) | set(locs):
                        a, b = locs.get(name), old.locals.get(name)
                        mv = merge(g, a, b)
                        if mv is not a and mv is not b:
                            mv = self.named_val(mv)
                        merged[name] = mv
                    pending[nkey] = State(ng, merged)
                else:
                    pending[nkey] = State(g, dict(locs))
        return res

    # ---- blocks --------------------------------------------------------------------------------
    def _exec_block(self, func, frame, block, guard, res):
        for s in block.stmts:
            self._stmt(func, frame, s)
        t = block.term
        locs = frame.locals
        if t == "return":
            v = locs.get("_0", UNIT)
            res.ret = self.named_val(merge(guard, v, res.ret)) if res.ret is not None else v
            res.ret_guard = self.g_or(res.ret_guard, guard)
            return []
        if t in ("unreachable", "resume"):
            return []
        if t.startswith("goto -> "):
            return [(t[8:], guard, locs)]
        if t.startswith("switchInt("):
            m = re.match(r"switchInt\((.*)\) -> \[(.*)\]$", t)
            v = self._operand(func, frame, m.group(1))
            outs, others = [], []
            for part in m.group(2).split(","):
                kx, _, tgt = part.strip().partition(": ")
                if kx == "otherwise":
                    c = z3.simplify(z3.And(*[z3.Not(o) for o in others])) if others else z3.BoolVal(True)
                else:
                    c = z3.simplify(self._eq_const(v, int(kx)))
                    others.append(c)
                outs.append((tgt, self.g_and(guard, c), locs))
            return outs
        if t.startswith("assert("):
            m = re.match(r"assert\((!?)(.*?), \"(.*)\) -> \[success: (bb\d+), unwind.*\]$", t)
            if not m:
                m2 = re.match(r"assert\((!?)(.*?), .*-> \[success: (bb\d+), unwind.*\]$", t)
                neg, opnd, tgt = m2.group(1), m2.group(2), m2.group(3)
            else:
                neg, opnd, tgt = m.group(1), m.group(2), m.group(4)
            c = self._operand(func, frame, opnd)
            if neg:
                c = z3.Not(c)
            c = z3.simplify(c)
            res.panicked = self.g_or(res.panicked, self.g_and(guard, z3.simplify(z3.Not(c))))
            return [(tgt, self.g_and(guard, c), locs)]
        if t.startswith("drop("):
            m = re.search(r"return: (bb\d+)", t)
            return [(m.group(1), guard, locs)]
        # call:  _x = path(args) -> [return: bbN, unwind ...]   |   _x = path(args) -> unwind continue
        m = re.match(r"(\S+) = (.*)\((.*)\) -> (.*)$", t)
        if m:
            dest, callee, argstr, tail = m.groups()
            argv = [self._operand(func, frame, a) for a in split_args(argstr)]
            rm = re.search(r"return: (bb\d+)", tail)
            val, pan, unw = self._call(func, frame, callee, argv, guard)
            res.panicked = self.g_or(res.panicked, pan)
            res.unwind_exceeded = self.g_or(res.unwind_exceeded, unw)
            if val is None or not rm:
                return []
            self._assign(func, frame, dest, val)
            ng = guard if z3.is_false(pan) else self.g_and(guard, z3.Not(pan))
            return [(rm.group(1), ng, frame.locals)]
        raise Unsupported("terminator: " + t)

    def _eq_const(self, v, k):
        if z3.is_bool(v):
            return v if k else z3.Not(v)
        return v == z3.BitVecVal(k, v.size())

    # ---- calls ---------------------------------------------------------------------------------
    def _call(self, func, frame, callee, argv, guard):
        F = z3.BoolVal(False)
        c = callee.replace("std::", "").replace("core::", "").replace("alloc::", "")
        def note(n):
            self.stats["std_calls"][n] = self.stats["std_calls"].get(n, 0) + 1
        if c.startswith("Vec::<u64>::new"):
            note("Vec::<u64>::new")
            return VecV(arr_new(64, self.vec_cap), z3.BitVecVal(0, 64)), F, F
        if c.startswith("Vec::<u64>::push"):
            note("Vec::<u64>::push")
            r = argv[0]
            v = self._load_ref(r)
            nv = VecV(arr_sto(v.arr, v.len, argv[1]), v.len + 1)
            self._store_ref(r, nv)
            full = self.g_and(guard, z3.UGE(v.len, z3.BitVecVal(self.vec_cap, 64)))
            return UNIT, F, full
        if c.startswith("Vec::<u64>::is_empty"):
            note("Vec::<u64>::is_empty")
            return self._load_ref(argv[0]).len == 0, F, F
        if c.startswith("Vec::<u64>::len"):
            note("Vec::<u64>::len")
            return self._load_ref(argv[0]).len, F, F
        if c.startswith("<Vec<u64> as Index<usize>>::index") or c.startswith("<Vec<u64> as ops::Index<usize>>::index"):
            note("<Vec<u64> as Index<usize>>::index")
            v = self._load_ref(argv[0])
            oob = self.g_and(guard, z3.UGE(argv[1], v.len))
            return ValRef(arr_sel(v.arr, argv[1])), oob, F
        if c.startswith("Vec::<u64>::extend_from_slice"):
            note("Vec::<u64>::extend_from_slice")
            r = argv[0]
            v = self._load_ref(r)
            sl = argv[1]
            if isinstance(sl, ValRef):
                sl = sl.val
            arr = v.arr
            # slices here come from a 7-element array: copy up to 7 elements
            for i in range(7):
                iv = z3.BitVecVal(i, 64)
                arr = self.named(arr_ite(z3.ULT(iv, sl.len), arr_sto(arr, v.len + iv, self.named(arr_sel(sl.arr, sl.off + iv), "ext")), arr), "ext")
            long_slice = self.g_and(guard, z3.Or(z3.UGT(sl.len, z3.BitVecVal(7, 64)),
                                                 z3.UGT(v.len + sl.len, z3.BitVecVal(self.vec_cap, 64))))
            self._store_ref(r, VecV(arr, v.len + sl.len))
            return UNIT, F, long_slice  # a longer slice / full vector is outside the model: reported like an exceeded bound
        if re.match(r"<(ops::)?(range::)?Range<u64> as (iter::)?(traits::)?(collect::)?IntoIterator>::into_iter", c) or \
                re.match(r"<(iter::)?(adapters::)?(rev::)?Rev<(ops::)?(range::)?Range<u64>> as (iter::)?(traits::)?(collect::)?IntoIterator>::into_iter", c):
            note("IntoIterator::into_iter")
            return argv[0], F, F
        if re.match(r"<(ops::)?(range::)?Range<u64> as (iter::)?(traits::)?(iterator::)?Iterator>::rev", c):
            note("<Range<u64> as Iterator>::rev")
            return Rec("Rev", {"iter": argv[0]}), F, F
        if re.match(r"<(ops::)?(range::)?Range<u64> as (iter::)?(traits::)?(iterator::)?Iterator>::next", c):
            note("<Range<u64> as Iterator>::next")
            r = argv[0]
            rng = self._load_ref(r)
            has = z3.ULT(rng.fields["start"], rng.fields["end"])
            val = rng.fields["start"]
            nr = Rec("Range", {"start": z3.If(has, rng.fields["start"] + 1, rng.fields["start"]), "end": rng.fields["end"]})
            self._store_ref(r, nr)
            return Rec("Option", {"disc": z3.If(has, z3.BitVecVal(1, 64), z3.BitVecVal(0, 64)), "0": val}), F, F
        if re.match(r"<(iter::)?(adapters::)?(rev::)?Rev<(ops::)?(range::)?Range<u64>> as (iter::)?(traits::)?(iterator::)?Iterator>::next", c):
            note("<Rev<Range<u64>> as Iterator>::next")
            r = argv[0]
            rev = self._load_ref(r)
            rng = rev.fields["iter"]
            has = z3.ULT(rng.fields["start"], rng.fields["end"])
            val = rng.fields["end"] - 1
            nr = Rec("Range", {"start": rng.fields["start"], "end": z3.If(has, rng.fields["end"] - 1, rng.fields["end"])})
            self._store_ref(r, Rec("Rev", {"iter": nr}))
            return Rec("Option", {"disc": z3.If(has, z3.BitVecVal(1, 64), z3.BitVecVal(0, 64)), "0": val}), F, F
        m = re.match(r"<(u8|u16|u32|u64|usize) as (convert::)?(Into|From)<(u8|u16|u32|u64|usize)>>::(into|from)", c)
        if m:
            note("<uN as Into<uM>>::into")
            dst = m.group(4) if m.group(3) == "Into" else m.group(1)
            a = argv[0]
            w = WIDTH[dst]
            if a.size() > w:
                raise Unsupported("narrowing Into")
            return (z3.ZeroExt(w - a.size(), a) if a.size() < w else a), F, F
        m = re.match(r"cmp::(min|max)::<(u8|u16|u32|u64|usize)>", c)
        if m:
            note("cmp::min/max::<uN>")
            a, b = argv[0], argv[1]
            if m.group(1) == "min":
                return z3.If(z3.ULE(a, b), a, b), F, F
            return z3.If(z3.UGE(a, b), a, b), F, F
        m = re.match(r"num::<impl (u64|u32|usize)>::leading_zeros", c)
        if m:
            note("leading_zeros")
            x = argv[0]
            w = x.size()
            r = z3.BitVecVal(w, 32)
            for i in range(w):
                # scanning from least to most significant bit: the last set bit seen wins
                r = z3.If(z3.Extract(i, i, x) == 1, z3.BitVecVal(w - 1 - i, 32), r)
            return self.named(r, "lz"), F, F
        m = re.match(r"num::<impl (u64|u32|usize)>::(is_power_of_two|trailing_zeros|count_ones|ilog2|wrapping_add|wrapping_sub|saturating_add|saturating_sub|abs_diff|checked_add|checked_sub)", c)
        if m:
            op = m.group(2)
            note(op)
            x = argv[0]
            w = x.size()
            one, zero = z3.BitVecVal(1, w), z3.BitVecVal(0, w)
            if op == "is_power_of_two":
                return z3.And(x != zero, (x & (x - one)) == zero), F, F
            if op == "trailing_zeros":
                r = z3.BitVecVal(w, 32)
                for i in reversed(range(w)):   # from most to least significant: the lowest set bit wins
                    r = z3.If(z3.Extract(i, i, x) == 1, z3.BitVecVal(i, 32), r)
                return self.named(r, "tz"), F, F
            if op == "count_ones":
                r = z3.BitVecVal(0, 32)
                for i in range(w):
                    r = r + z3.ZeroExt(31, z3.Extract(i, i, x))
                return self.named(r, "pop"), F, F
            if op == "ilog2":
                r = z3.BitVecVal(0, 32)
                for i in range(w):
                    r = z3.If(z3.Extract(i, i, x) == 1, z3.BitVecVal(i, 32), r)
                return self.named(r, "ilog2"), self.g_and(guard, x == zero), F
            y = argv[1]
            if op == "wrapping_add":
                return x + y, F, F
            if op == "wrapping_sub":
                return x - y, F, F
            if op == "saturating_add":
                return z3.If(z3.ULT(x + y, x), z3.BitVecVal(-1, w), x + y), F, F
            if op == "saturating_sub":
                return z3.If(z3.ULT(x, y), zero, x - y), F, F
            if op == "abs_diff":
                return z3.If(z3.ULT(x, y), y - x, x - y), F, F
            if op == "checked_add":
                ok = z3.Not(z3.ULT(x + y, x))
                return Rec("Option", {"disc": z3.If(ok, z3.BitVecVal(1, 64), z3.BitVecVal(0, 64)), "0": x + y}), F, F
            if op == "checked_sub":
                ok = z3.UGE(x, y)
                return Rec("Option", {"disc": z3.If(ok, z3.BitVecVal(1, 64), z3.BitVecVal(0, 64)), "0": x - y}), F, F
        if c.startswith("slice::<impl [u64]>::is_empty"):
            note("<[u64]>::is_empty")
            sl = argv[0]
            if isinstance(sl, ValRef):
                sl = sl.val
            return sl.len == 0, F, F
        m = re.match(r"<\[u64; (\d+)\] as (ops::)?(index::)?Index<(ops::)?(range::)?Range<usize>>>::index", c)
        if m:
            note("<[u64; N] as Index<Range<usize>>>::index")
            n = int(m.group(1))
            a = argv[0]
            if isinstance(a, ValRef):
                a = a.val
            elif isinstance(a, Ref):
                a = self._load_ref(a)
            rng = argv[1]
            s, e = rng.fields["start"], rng.fields["end"]
            bad = self.g_and(guard, z3.Or(z3.UGT(s, e), z3.UGT(e, z3.BitVecVal(n, 64))))
            return ValRef(SliceV(a.arr, s, e - s)), bad, F
        if c.startswith("Arguments::<'_>::from_str") or c.startswith("fmt::Arguments::<'_>::from_str") or "Arguments" in c and "new_const" in c:
            return UNIT, F, F
        if c.startswith("panic_fmt") or c.startswith("panicking::panic_fmt") or c.startswith("panicking::panic"):
            return None, guard, F
        # crate function: inline
        callee_f = self.lookup(callee)
        if callee_f is not None and callee_f.kind == "fn":
            self.stats["calls_inlined"] += 1
            saved = frame.locals
            sub = self.run(callee_f.name, argv, guard)
            frame.locals = saved
            return sub.ret, sub.panicked, sub.unwind_exceeded
        raise Unsupported("call to unmodelled function: " + callee)

    # ---- places and operands -------------------------------------------------------------------
    def _load_ref(self, r):
        if isinstance(r, ValRef):
            return r.val
        if isinstance(r, Ref):
            return self._read_place(r.frame.func, r.frame, r.place)
        raise Unsupported("deref of non-reference")

    def _store_ref(self, r, v):
        if isinstance(r, Ref):
            self._assign(r.frame.func, r.frame, r.place, v)
        else:
            raise Unsupported("store through non-place reference")

    def _const_item(self, path):
        if path in self.const_cache:
            return self.const_cache[path]
        f = self.lookup(path)
        if f is None:
            raise Unsupported("constant not found: " + path)
        r = self.run(f.name, [])
        # constant evaluation must not panic (checked by the caller through simplification)
        chk = z3.Solver()
        chk.add(*self.defs)
        chk.add(r.panicked)
        if chk.check() != z3.unsat:
            raise Unsupported("constant may panic: " + path)
        self.const_cache[path] = r.ret
        return r.ret

    def _operand(self, func, frame, s):
        s = s.strip()
        if s.startswith("copy ") or s.startswith("move "):
            return self._read_place(func, frame, s[5:].strip())
        if s.startswith("const "):
            return self._const(func, s[6:].strip())
        return self._read_place(func, frame, s)

    def _const(self, func, s):
        m = re.match(r"^(-?\d+)_(\w+)$", s)
        if m:
            ty = m.group(2)
            return z3.BitVecVal(int(m.group(1)), WIDTH[ty])
        if s == "true":
            return z3.BoolVal(True)
        if s == "false":
            return z3.BoolVal(False)
        if s.startswith('"'):
            return UNIT
        if s == "()":
            return UNIT
        # path to a const item / promoted
        return self._const_item(s)

    def _read_place(self, func, frame, p):
        p = p.strip()
        # (*_86)[_111]  |  (*_23)  |  (_8.1: bool)  |  ((_36 as Some).0: u64)  |  _8[_5]  |  _5
        m = re.match(r"^\(\*(_\d+)\)\[(_\d+)\]$", p)
        if m:
            sl = self._load_ref(frame.locals[m.group(1)])
            idx = frame.locals[m.group(2)]
            if isinstance(sl, SliceV):
                return arr_sel(sl.arr, sl.off + idx)
            return arr_sel(sl.arr, idx)
        m = re.match(r"^\(\*(_\d+)\)$", p)
        if m:
            return self._load_ref(frame.locals[m.group(1)])
        m = re.match(r"^\(\((_\d+) as (\w+)\)\.(\d+): .*\)$", p)
        if m:
            return frame.locals[m.group(1)].fields[m.group(3)]
        m = re.match(r"^\((_\d+)\.(\d+): .*\)$", p)
        if m:
            v = frame.locals[m.group(1)]
            if isinstance(v, Tup):
                return v.items[int(m.group(2))]
            if isinstance(v, Rec):
                keys = list(v.fields)
                return v.fields[keys[int(m.group(2))]]
            raise Unsupported("field of " + repr(v))
        m = re.match(r"^(_\d+)\[(_\d+)\]$", p)
        if m:
            a = frame.locals[m.group(1)]
            return arr_sel(a.arr, frame.locals[m.group(2)])
        m = re.match(r"^(_\d+)\[(\d+) of (\d+)\]$", p)
        if m:
            a = frame.locals[m.group(1)]
            return arr_sel(a.arr, z3.BitVecVal(int(m.group(2)), 64))
        if re.match(r"^_\d+$", p):
            if p not in frame.locals:
                raise Unsupported("read of unset local " + p + " in " + func.name)
            return frame.locals[p]
        raise Unsupported("place: " + p)

    def _assign(self, func, frame, p, v):
        p = p.strip()
        if re.match(r"^_\d+$", p):
            frame.locals = dict(frame.locals)
            frame.locals[p] = v
            return
        m = re.match(r"^\((_\d+)\.(\d+): .*\)$", p)
        if m:
            base = frame.locals[m.group(1)]
            if isinstance(base, Tup):
                items = list(base.items)
                items[int(m.group(2))] = v
                frame.locals = dict(frame.locals)
                frame.locals[m.group(1)] = Tup(items)
                return
        raise Unsupported("assignment to place: " + p)

    # ---- statements ----------------------------------------------------------------------------
    def _stmt(self, func, frame, s):
        if s.startswith("StorageLive") or s.startswith("StorageDead") or s.startswith("FakeRead") \
                or s.startswith("PlaceMention") or s.startswith("nop") or s.startswith("Retag") \
                or s.startswith("AscribeUserType") or s.startswith("Coverage") or s.startswith("//"):
            return
        m = re.match(r"^(\S.*?) = (.*)$", s)
        if not m:
            raise Unsupported("statement: " + s)
        dest, rv = m.group(1), m.group(2)
        self._assign(func, frame, dest, self._rvalue(func, frame, rv, dest))

    def _ty_of(self, func, place):
        m = re.match(r"^_\d+$", place)
        return func.locals.get(place) if m else None

    def _rvalue(self, func, frame, rv, dest):
        rv = rv.strip()
        m = re.match(r"^(Lt|Le|Gt|Ge|Eq|Ne|Shl|Shr|BitAnd|BitOr|BitXor|Add|Sub|Mul|AddWithOverflow|SubWithOverflow|MulWithOverflow|AddUnchecked|SubUnchecked|ShlUnchecked|ShrUnchecked)\((.*)\)$", rv)
        if m:
            op = m.group(1)
            a_s, b_s = split_args(m.group(2))
            a = self._operand(func, frame, a_s)
            b = self._operand(func, frame, b_s)
            return self._binop(op, a, b, a_s, b_s, func)
        m = re.match(r"^(Not|Neg)\((.*)\)$", rv)
        if m:
            a = self._operand(func, frame, m.group(2))
            if m.group(1) == "Not":
                return z3.Not(a) if z3.is_bool(a) else ~a
            return -a
        m = re.match(r"^(.*) as (\w+) \(IntToInt\)$", rv)
        if m:
            a = self._operand(func, frame, m.group(1))
            src_signed = self._operand_signed(func, m.group(1))
            w = WIDTH[m.group(2)]
            if z3.is_bool(a):
                return z3.If(a, z3.BitVecVal(1, w), z3.BitVecVal(0, w))
            if a.size() == w:
                return a
            if a.size() > w:
                return z3.Extract(w - 1, 0, a)
            return z3.SignExt(w - a.size(), a) if src_signed else z3.ZeroExt(w - a.size(), a)
        m = re.match(r"^(.*) as &\[(\w+)\] \(PointerCoercion\(Unsize.*\)\)$", rv)
        if m:
            a = self._operand(func, frame, m.group(1))
            a = self._load_ref(a) if isinstance(a, (Ref, ValRef)) else a
            if not isinstance(a, ArrV):
                raise Unsupported("unsize of non-array")
            return ValRef(SliceV(a.arr, z3.BitVecVal(0, 64), z3.BitVecVal(a.n, 64)))
        m = re.match(r"^discriminant\((_\d+)\)$", rv)
        if m:
            return frame.locals[m.group(1)].fields["disc"]
        m = re.match(r"^PtrMetadata\((.*)\)$", rv)
        if m:
            v = self._operand(func, frame, m.group(1))
            if isinstance(v, ValRef):
                v = v.val
            return v.len
        m = re.match(r"^&(mut )?(.*)$", rv)
        if m:
            return Ref(frame, m.group(2).strip())
        m = re.match(r"^(?:std::)?(?:ops::)?(?:range::)?Range::<(\w+)> \{ start: (.*), end: (.*) \}$", rv)
        if m:
            return Rec("Range", {"start": self._operand(func, frame, m.group(2)), "end": self._operand(func, frame, m.group(3))})
        if rv.startswith("[") and rv.endswith("]"):
            items = [self._operand(func, frame, x) for x in split_args(rv[1:-1])]
            return ArrV(LArr(items), len(items))
        if rv.startswith("(") and rv.endswith(")") and not rv.startswith("(*") and not re.match(r"^\(_\d+\.\d+: ", rv) and not rv.startswith("(("):
            inner = rv[1:-1]
            if inner.strip() == "":
                return UNIT
            return Tup(self._operand(func, frame, x) for x in split_args(inner))
        return self._operand(func, frame, rv)

    def _operand_signed(self, func, s):
        s = s.strip()
        m = re.match(r"^const -?\d+_(\w+)$", s)
        if m:
            return m.group(1) in SIGNED
        m = re.match(r"^(?:copy|move) (_\d+)$", s)
        if m:
            return func.locals.get(m.group(1), "") in SIGNED
        return False

    def _binop(self, op, a, b, a_s, b_s, func):
        signed = self._operand_signed(func, a_s)
        if op in ("Shl", "Shr", "ShlUnchecked", "ShrUnchecked"):
            if b.size() != a.size():
                b = z3.ZeroExt(a.size() - b.size(), b) if b.size() < a.size() else z3.Extract(a.size() - 1, 0, b)
            # MIR Shl masks the shift amount; the overflow `assert` precedes it in checked builds
            b = b & z3.BitVecVal(a.size() - 1, a.size())
            if op.startswith("Shl"):
                return a << b
            return (a >> b) if signed else z3.LShR(a, b)
        if op == "Eq":
            return a == b
        if op == "Ne":
            return a != b
        if op == "Lt":
            return (a < b) if signed else z3.ULT(a, b)
        if op == "Le":
            return (a <= b) if signed else z3.ULE(a, b)
        if op == "Gt":
            return (a > b) if signed else z3.UGT(a, b)
        if op == "Ge":
            return (a >= b) if signed else z3.UGE(a, b)
        if op == "BitAnd":
            return z3.And(a, b) if z3.is_bool(a) else a & b
        if op == "BitOr":
            return z3.Or(a, b) if z3.is_bool(a) else a | b
        if op == "BitXor":
            return z3.Xor(a, b) if z3.is_bool(a) else a ^ b
        if op in ("Add", "AddUnchecked"):
            return a + b
        if op in ("Sub", "SubUnchecked"):
            return a - b
        if op == "Mul":
            return a * b
        if op == "AddWithOverflow":
            ovf = z3.Not(z3.BVAddNoOverflow(a, b, signed)) if not signed else z3.Or(z3.Not(z3.BVAddNoOverflow(a, b, True)), z3.Not(z3.BVAddNoUnderflow(a, b)))
            return Tup([a + b, ovf])
        if op == "SubWithOverflow":
            ovf = z3.ULT(a, b) if not signed else z3.Or(z3.Not(z3.BVSubNoOverflow(a, b)), z3.Not(z3.BVSubNoUnderflow(a, b, True)))
            return Tup([a - b, ovf])
        if op == "MulWithOverflow":
            ovf = z3.Not(z3.BVMulNoOverflow(a, b, signed))
            return Tup([a * b, ovf])
        raise Unsupported("binop " + op)
