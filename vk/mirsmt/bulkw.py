"""Engine M, ninth client: the bulk user-state query inside a transaction
(akd/src/storage/manager/mod.rs: `StorageManager::get_user_state_versions`).

C15 names the bulk query explicitly ("which currently confuses epoch and version in the bulk
query"). Its merge of the database answer with the pending value states lives in an async body, so
Kani cannot reach it; the coroutine's MIR is walked (corowalk.py) with the database, the transaction
log, the answer map and the arbiter between a database entry and a pending record as event sources.
The answer maps a user to `(version, value)`. Decided on every path (z3 on the path conditions):

  B1  the database is asked first, with the caller's users and flag; its error is returned as is
  B2  the transaction log is consulted exactly when a transaction is open, with the same users and flag
  B3  every entry written into the answer is (r.version, r.value) of ONE pending record r - the record
      the arbiter returned, or the pending record itself when the database had no entry - under that
      record's user; never a pending record's epoch, never the database entry's version paired with a
      pending value (field positions are read from `struct ValueState` in akd/src/storage/types.rs)
  B4  when the database has an entry, the arbiter is `compare_db_version_and_transaction_record`
      (decided by Kani: C15.bulk_read_in_tx) and it is given the database entry's VERSION, the pending
      record and the caller's flag; the answer is overwritten exactly when it returns a record
  B5  Ok(answer) is the database's map (updated in place); nothing else touches the map

Loop body executed at most once per walk (one pending user): iterations only communicate through
the answer map, which is handled as an opaque object, so one iteration from an arbitrary map is the
general case. What `Transaction::get_users_states` picks is C15.pending_pick's kernel
(`find_appropriate_item`) applied per user; that per-user wiring is not decided here.
"""
import os
import re
import time

import z3

from . import corowalk
from .histglue import Agg, Sym, Unsupported

ARBITER = "compare_db_version_and_transaction_record"
EPOCH_ARBITER = "compare_db_and_transaction_records"


def value_state_fields(repo):
    src = open(os.path.join(repo, "akd/src/storage/types.rs")).read()
    m = re.search(r"pub struct ValueState\s*\{(.*?)\n\}", src, re.S)
    if not m:
        return None
    names = re.findall(r"^\s*pub\s+(\w+)\s*:", m.group(1), re.M)
    return {n: i for i, n in enumerate(names)}


def strip(v):
    while isinstance(v, tuple) and len(v) == 2 and v[0] == "&":
        v = v[1]
    return v


def ready(p):
    r = p.ret
    if isinstance(r, Agg) and r.kind == "Poll" and "Ready" in r.fields:
        return r.fields["Ready"][0]
    return None


def name_of(v):
    v = strip(v)
    return v.name if isinstance(v, Sym) else None


def run_obligation(ob, tier, seed, funcs, repo="/repo"):
    t0 = time.time()
    nq = [0]
    solver_s = [0.0]

    def sat(*cs):
        nq[0] += 1
        s = z3.Solver()
        s.add(*cs)
        t1 = time.time()
        r = s.check() == z3.sat
        solver_s[0] += time.time() - t1
        return r

    fails = []
    fld = value_state_fields(repo)
    if not fld or not all(k in fld for k in ("value", "version", "epoch", "username")):
        return {"engine": "mir", "verdict": "inconclusive", "reason": "struct ValueState not found / fields renamed in akd/src/storage/types.rs", "wall_s": 0, "queries": 0}
    f = None
    for n, g in funcs.items():
        if n.endswith("::get_user_state_versions::{closure#0}") and "manager::<impl" in n:
            f = g
    if f is None:
        return {"engine": "mir", "verdict": "inconclusive", "reason": "StorageManager::get_user_state_versions not found in the MIR dump", "wall_s": 0, "queries": 0}
    saw = {"db_err": False, "no_txn": False, "merge_take": False, "merge_keep": False, "fresh": False}
    try:
        w = corowalk.CoWalker(f, max_steps=200000)
        w.loop_bound = 1
        paths = [p for p in w.run() if not (p.panic and "resumed after" in p.panic)]
        for p in paths:
            if p.panic:
                fails.append("B5: get_user_state_versions can panic: %s" % p.panic[:60])
                continue
            res = ready(p)
            if not (isinstance(res, Agg) and res.kind == "Result"):
                fails.append("B5: get_user_state_versions returns %r" % (p.ret,))
                continue
            names = [e[0] for e in p.events]
            db_i = [i for i, n in enumerate(names) if n.endswith("Database>::get_user_state_versions")]
            if not db_i or db_i[0] != 0:
                fails.append("B1: the database is not the first thing asked")
                continue
            dbe = p.events[db_i[0]]
            dok, dres = dbe[2], dbe[3]
            db_args = [strip(x) for x in dbe[1]][1:]
            rok = res.fields["ok"]
            ret_ok = z3.BoolVal(rok) if isinstance(rok, bool) else rok
            if sat(p.cond, z3.Not(dok)):
                saw["db_err"] = True
                if sat(p.cond, z3.Not(dok), ret_ok) or (rok is False and res.fields["Err"][0] != dres.fields["Err"][0]):
                    fails.append("B1: a failed database read is not returned as that error")
                if len(names) > 1 and not sat(p.cond, dok):
                    fails.append("B1: work continues after a failed database read")
                continue
            if sat(p.cond, dok, z3.Not(ret_ok)):
                fails.append("B5: an error is returned although the database read succeeded")
            the_map = dres.fields["Ok"][0]
            if rok is True and res.fields["Ok"][0] != the_map:
                fails.append("B5: the answer returned is not the database's map")
            act = [e for e in p.events if e[0].endswith("is_transaction_active")]
            tx_i = [i for i, n in enumerate(names) if n.endswith("Transaction::get_users_states")]
            ins_i = [i for i, n in enumerate(names) if n.endswith("HashMap::insert")]
            get_i = [i for i, n in enumerate(names) if n.endswith("HashMap::get")]
            arb_i = [i for i, n in enumerate(names) if n.endswith(ARBITER) or n.endswith(EPOCH_ARBITER)]
            nxt_i = [i for i, n in enumerate(names) if n.endswith("as Iterator>::next")]
            other = [n for i, n in enumerate(names) if i not in ins_i + get_i and any(strip(a) == the_map for a in p.events[i][1]) and i != 0]
            if other:
                fails.append("B5: the answer map is also handed to %s" % other[0][-40:])
            if not act or not z3.is_bool(act[0][3]):
                fails.append("B2: the open-transaction flag is not consulted")
                continue
            if not tx_i:
                saw["no_txn"] = True
                if sat(p.cond, act[0][3]):
                    fails.append("B2: a transaction is open but its log is not consulted")
                if ins_i:
                    fails.append("B2: the answer is modified without consulting the transaction log")
                continue
            if sat(p.cond, z3.Not(act[0][3])):
                fails.append("B2: the transaction log is read although no transaction is open")
            tx_args = [strip(x) for x in p.events[tx_i[0]][1]][1:]
            if tx_args != db_args:
                fails.append("B2: the transaction log is asked for other users / another flag (%r) than the database (%r)" % (tx_args, db_args))
            if not nxt_i:
                fails.append("B3: the pending records are not iterated")
                continue
            ent = p.events[nxt_i[0]][3]
            if not (isinstance(ent, Agg) and ent.kind == "Option" and isinstance(ent.fields["Some"][0], Sym)):
                fails.append("B3: unexpected iterator item %r" % (ent,))
                continue
            e_name = ent.fields["Some"][0].name
            user, pend = Sym(e_name + ".0"), Sym(e_name + ".1")
            if not get_i:
                if ins_i:
                    fails.append("B4: the answer is overwritten without looking at the database's entry")
                continue
            ge = p.events[get_i[0]]
            g_args = [strip(x) for x in ge[1]]
            if g_args != [the_map, user]:
                fails.append("B4: the database's entry is looked up in %r, expected the answer map under the pending record's user" % (g_args,))
            found = ge[3]
            has_db = not sat(p.cond, found.fields["disc"] != 1)
            for i in ins_i:
                a = [strip(x) for x in p.events[i][1]]
                if a[0] != the_map or a[1] != user:
                    fails.append("B3: an entry is written under another user / into another map: %r" % (a[:2],))
            if has_db:
                db_version = Sym("*" + found.fields["Some"][0].name + ".0")
                arbs = [i for i in arb_i if i > get_i[0]]
                if not arbs:
                    if ins_i:
                        fails.append("B4: the database entry is overwritten by the pending record without arbitration")
                    else:
                        fails.append("B4: a pending record is ignored without arbitration although the database has an entry")
                    continue
                ae = p.events[arbs[0]]
                a_args = [strip(x) for x in ae[1]]
                if names[arbs[0]].endswith(EPOCH_ARBITER):
                    fails.append("B4: the database entry's VERSION is compared with the pending record's EPOCH (compare_db_and_transaction_records is the epoch arbiter)")
                elif len(a_args) != 3 or a_args[0] != db_version or a_args[1] != pend or a_args[2] != db_args[-1]:
                    fails.append("B4: the arbiter is given %r, expected (database version, pending record, the caller's flag)" % (a_args,))
                ar = ae[3]
                took = not sat(p.cond, ar.fields["disc"] != 1)
                kept = not sat(p.cond, ar.fields["disc"] == 1)
                if took:
                    saw["merge_take"] = True
                    r = ar.fields["Some"][0]
                    want = ("tup", [Sym(r.name + ".%d" % fld["version"]), Sym(r.name + ".%d" % fld["value"])])
                    if len(ins_i) != 1:
                        fails.append("B4: the arbiter chose the pending record but the answer is not overwritten once (%d writes)" % len(ins_i))
                    else:
                        got = strip(p.events[ins_i[0]][1][2])
                        if got != want:
                            fails.append("B3: merged entry is %s, expected (version, value) of the record the arbiter returned" % describe(got, fld, db_version))
                elif kept:
                    saw["merge_keep"] = True
                    if ins_i:
                        fails.append("B4: the arbiter kept the database entry but the answer is overwritten")
                else:
                    fails.append("B4: arbiter outcome not decided on this path")
            else:
                saw["fresh"] = True
                if arb_i:
                    fails.append("B4: arbitration although the database has no entry")
                want = ("tup", [Sym(pend.name + ".%d" % fld["version"]), Sym(pend.name + ".%d" % fld["value"])])
                if len(ins_i) != 1:
                    fails.append("B3: a pending record of a user the database does not know is not written into the answer once (%d writes)" % len(ins_i))
                else:
                    got = strip(p.events[ins_i[0]][1][2])
                    if got != want:
                        fails.append("B3: entry for a user only the transaction knows is %s, expected (version, value) of the pending record" % describe(got, fld, None))
    except Unsupported as ex:
        return {"engine": "mir", "verdict": "inconclusive", "reason": "MIR construct outside the event walker's fragment: %s" % ex, "wall_s": round(time.time() - t0, 2), "queries": 0}
    uniq = []
    for x in fails:
        if x not in uniq:
            uniq.append(x)
    wit = all(saw.values())
    if not wit and not uniq:
        uniq.append("witness: path classes not all reached: %s (walker too coarse)" % saw)
    res = {"engine": "mir", "wall_s": round(time.time() - t0, 2), "queries": nq[0], "solver_s": round(solver_s[0], 2),
           "witness_ok": wit, "witness": "%d paths; reached: %s" % (len(paths), saw), "extra": {"paths": len(paths), "value_state_fields": fld}}
    if uniq:
        res["verdict"] = "fail"
        res["reason"] = "; ".join(uniq[:3])
        res["failures"] = uniq
    else:
        res["verdict"] = "pass"
        res["reason"] = "%d queries decided, B1-B5 hold on %d paths" % (nq[0], len(paths))
    return res


def describe(t, fld, db_version):
    inv = {v: k for k, v in fld.items()}
    if not (isinstance(t, tuple) and t[0] == "tup"):
        return repr(t)
    out = []
    for x in t[1]:
        if db_version is not None and x == db_version:
            out.append("the database entry's version")
            continue
        n = x.name if isinstance(x, Sym) else repr(x)
        m = re.search(r"\.(\d+)$", n)
        out.append("a pending record's `%s`" % inv.get(int(m.group(1)), "?") if m else n)
    return "(" + ", ".join(out) + ")"


# ---- second and third obligation: the wiring of the single-user query and of the pending picks ----
def run_wiring(ob, tier, seed, funcs, repo="/repo"):
    """C15.user_state_wiring: `StorageManager::get_user_state` (async body) and
    `Transaction::get_users_states` compose their ingredients as the Kani obligations
    C15.read_in_tx / C15.bulk_read_in_tx assume:

      U1  the database is asked first with the caller's user and flag; an error other than NotFound
          is returned as is
      U2  the transaction log is consulted exactly when a transaction is open, same user and flag
      U3  database record d and pending record t: the arbiter is compare_db_and_transaction_records
          (d.epoch, t, flag); Some(r) => Ok(r); None => Ok(d)
      U4  only t => Ok(t); only d => Ok(d); neither => Err(NotFound)
      U5  the only thing put into the object cache is a clone of the database's record
      W1  get_users_states: a fresh map; get_users_data(self, users); per (user, list):
          find_appropriate_item(list, flag), inserted under that user exactly when Some; the map
          is returned (loop body once per walk)
    """
    t0 = time.time()
    nq = [0]

    def sat(*cs):
        nq[0] += 1
        s = z3.Solver()
        s.add(*cs)
        return s.check() == z3.sat

    fld = value_state_fields(repo)
    if not fld or "epoch" not in fld:
        return {"engine": "mir", "verdict": "inconclusive", "reason": "struct ValueState not found in akd/src/storage/types.rs", "wall_s": 0, "queries": 0}
    f = g = None
    for n, h in funcs.items():
        if n.endswith("::get_user_state::{closure#0}") and "manager::<impl" in n:
            f = h
        if n.endswith("::get_users_states") and "transaction::<impl" in n:
            g = h
    if f is None or g is None:
        return {"engine": "mir", "verdict": "inconclusive", "reason": "StorageManager::get_user_state / Transaction::get_users_states not found in the MIR dump", "wall_s": 0, "queries": 0}
    fails = []
    saw = {"db_err": False, "both_take": False, "both_keep": False, "tx_only": False, "db_only": False, "neither": False, "w_insert": False, "w_skip": False}
    try:
        w = corowalk.CoWalker(f, max_steps=200000)
        paths = [p for p in w.run() if not (p.panic and "resumed after" in p.panic)]
        for p in paths:
            if p.panic:
                fails.append("U: get_user_state can panic: %s" % p.panic[:60])
                continue
            res = ready(p)
            names = [e[0] for e in p.events]
            if not (isinstance(res, Agg) and res.kind == "Result") or not names or not names[0].endswith("Database>::get_user_state"):
                fails.append("U1: get_user_state does not start with the database read / returns %r" % (p.ret,))
                continue
            dbe = p.events[0]
            dok, dres = dbe[2], dbe[3]
            db_args = [strip(x) for x in dbe[1]][1:]
            d = dres.fields["Ok"][0]
            act = [e for e in p.events if e[0].endswith("is_transaction_active")]
            tx_i = [i for i, n in enumerate(names) if n.endswith("Transaction::get_user_state")]
            arb_i = [i for i, n in enumerate(names) if n.endswith(EPOCH_ARBITER) or n.endswith(ARBITER)]
            put_i = [i for i, n in enumerate(names) if n.endswith("TimedCache::put") or n.endswith("TimedCache::batch_put")]
            clones = {p.events[i][3]: strip(p.events[i][1][0]) for i, n in enumerate(names) if n.endswith("Clone>::clone")}
            for i in put_i:
                rec = strip(p.events[i][1][1])
                inner = rec.fields.get(0) if isinstance(rec, Agg) else None
                if clones.get(inner) != d:
                    fails.append("U5: something else than a clone of the database's record is put into the cache: %r" % (rec,))
            if not act:
                # the database failed with an error that is not NotFound
                saw["db_err"] = True
                if res.fields["ok"] is not False or res.fields["Err"][0] != dres.fields["Err"][0] or sat(p.cond, dok):
                    fails.append("U1: a path without the open-transaction test that is not the database's error")
                continue
            have_db = not sat(p.cond, z3.Not(dok))
            if not have_db and sat(p.cond, dok):
                fails.append("U1: path does not decide the database result")
                continue
            if not tx_i:
                if sat(p.cond, act[0][3]):
                    fails.append("U2: a transaction is open but its log is not consulted")
                t = None
                have_tx = False
            else:
                if sat(p.cond, z3.Not(act[0][3])):
                    fails.append("U2: the transaction log is read although no transaction is open")
                if [strip(x) for x in p.events[tx_i[0]][1]][1:] != db_args:
                    fails.append("U2: the transaction log is asked for another user / flag than the database")
                tr = p.events[tx_i[0]][3]
                have_tx = not sat(p.cond, tr.fields["disc"] != 1)
                if not have_tx and sat(p.cond, tr.fields["disc"] == 1):
                    fails.append("U2: path does not decide the pending pick")
                    continue
                t = tr.fields["Some"][0]
            ok = res.fields["ok"]
            val = res.fields["Ok"][0] if ok is True else None
            if have_db and have_tx:
                if not arb_i or not names[arb_i[0]].endswith(EPOCH_ARBITER):
                    fails.append("U3: database and pending record are not arbitrated by compare_db_and_transaction_records")
                    continue
                a = [strip(x) for x in p.events[arb_i[0]][1]]
                if a != [Sym(d.name + ".%d" % fld["epoch"]), t, db_args[-1]]:
                    fails.append("U3: the arbiter is given %r, expected (database record's epoch, pending record, the caller's flag)" % (a,))
                ar = p.events[arb_i[0]][3]
                if not sat(p.cond, ar.fields["disc"] != 1):
                    saw["both_take"] = True
                    if val != ar.fields["Some"][0]:
                        fails.append("U3: the arbiter chose a record but %r is returned" % (val,))
                else:
                    saw["both_keep"] = True
                    if val != d:
                        fails.append("U3: the arbiter kept the database's record but %r is returned" % (val,))
            elif have_tx:
                saw["tx_only"] = True
                if arb_i or val != t:
                    fails.append("U4: only the transaction knows the user but %r is returned" % (res.fields,))
            elif have_db:
                saw["db_only"] = True
                if val != d:
                    fails.append("U4: only the database knows the user but %r is returned" % (res.fields,))
            else:
                saw["neither"] = True
                e = res.fields.get("Err", {}).get(0)
                if ok is not False or not (isinstance(e, Agg) and "NotFound" in e.kind):
                    fails.append("U4: nobody knows the user but the result is %r" % (res.fields,))
        # ---- Transaction::get_users_states ----------------------------------------------------
        w2 = corowalk.CoWalker(g, max_steps=200000)
        w2.loop_bound = 1
        for p in w2.run():
            if p.panic:
                fails.append("W1: get_users_states can panic: %s" % p.panic[:60])
                continue
            names = [e[0] for e in p.events]
            new_i = [i for i, n in enumerate(names) if n.endswith("HashMap::new")]
            gd_i = [i for i, n in enumerate(names) if n.endswith("Transaction::get_users_data")]
            nx_i = [i for i, n in enumerate(names) if n.endswith("as Iterator>::next")]
            fi_i = [i for i, n in enumerate(names) if n.endswith("Transaction::find_appropriate_item")]
            in_i = [i for i, n in enumerate(names) if n.endswith("HashMap::insert")]
            if not new_i or not gd_i or p.ret != p.events[new_i[0]][3]:
                fails.append("W1: get_users_states does not return its fresh map / does not read the pending data")
                continue
            the_map = p.events[new_i[0]][3]
            if [strip(x) for x in p.events[gd_i[0]][1]] != [Sym("init:_1"), Sym("init:_2")]:
                fails.append("W1: get_users_data is not asked for the caller's users")
            if not fi_i:
                if in_i:
                    fails.append("W1: an entry is written without a pick")
                continue
            ent = p.events[nx_i[0]][3].fields["Some"][0]
            a = [strip(x) for x in p.events[fi_i[0]][1]]
            if a != [Sym(ent.name + ".1"), Sym("init:_3")]:
                fails.append("W1: find_appropriate_item is given %r, expected (the user's pending states, the caller's flag)" % (a,))
            fr = p.events[fi_i[0]][3]
            if not sat(p.cond, fr.fields["disc"] != 1):
                saw["w_insert"] = True
                if len(in_i) != 1 or [strip(x) for x in p.events[in_i[0]][1]] != [the_map, Sym(ent.name + ".0"), fr.fields["Some"][0]]:
                    fails.append("W1: the pick is not inserted once under its user")
            elif not sat(p.cond, fr.fields["disc"] == 1):
                saw["w_skip"] = True
                if in_i:
                    fails.append("W1: an entry is written although there is no pick")
    except Unsupported as ex:
        return {"engine": "mir", "verdict": "inconclusive", "reason": "MIR construct outside the event walker's fragment: %s" % ex, "wall_s": round(time.time() - t0, 2), "queries": 0}
    except (KeyError, AttributeError, IndexError, TypeError) as ex:
        return {"engine": "mir", "verdict": "inconclusive", "reason": "unexpected event shape in the walk (%r): the code left the fragment this obligation understands" % (ex,), "wall_s": round(time.time() - t0, 2), "queries": 0}
    uniq = []
    for x in fails:
        if x not in uniq:
            uniq.append(x)
    wit = all(saw.values())
    if not wit and not uniq:
        uniq.append("witness: path classes not all reached: %s (walker too coarse)" % saw)
    res = {"engine": "mir", "wall_s": round(time.time() - t0, 2), "queries": nq[0], "solver_s": 0.0, "witness_ok": wit,
           "witness": "%d paths of get_user_state; reached: %s" % (len(paths), saw), "extra": {"paths": len(paths)}}
    if uniq:
        res["verdict"] = "fail"
        res["reason"] = "; ".join(uniq[:3])
        res["failures"] = uniq
    else:
        res["verdict"] = "pass"
        res["reason"] = "%d queries decided, U1-U5 and W1 hold" % nq[0]
    return res
