"""Obligation registry: for each claimed property, the solver obligations of each tier.

An obligation is one Kani harness (engine 'kani') or one batch of SMT queries over MIR
(engine 'mir'). `cap_s` = (quick cap, thorough cap) in seconds; a run that exceeds its cap is
inconclusive, never a pass.
"""
import random

CFG = "--cfg facebook_akd_verif"
NOREACH = ("-Z", "unstable-options", "--no-assertion-reach-checks")
MEMCMP = NOREACH + ("--cbmc-args", "--unwindset", "memcmp.0:34")

FMT_STUB = "alloc::fmt::format -> kani_core::util::format_stub (returns the empty String: every formatted " \
           "error message compares equal; in the code under test formatted messages are only built on index-out-of-range paths)"

NL = "akd_core/src/types/node_label/mod.rs"
VB = "akd_core/src/verify/base.rs"


def kani_ob(id, claim, harness, functions, bound, cap=(600, 1800), crate="kani_core", role=None,
            stubs=(FMT_STUB,), assumes=(), inst=None, args=MEMCMP, mem_gb=12):
    return {"id": id, "engine": "kani", "crate": crate, "harness": harness, "claim": claim,
            "functions": list(functions), "bound": bound, "cap_s": cap, "rustflags": CFG,
            "stubs": list(stubs), "assumes": list(assumes), "instantiation": inst,
            "kani_args": tuple(args), "role": role or id, "mem_gb": mem_gb}


# ------------------------------------------------------------------------------------------------
# C17
C17_FUNCS_PREFIX = [NL + "::is_prefix_of", NL + "::get_bit_at", NL + "::get_bit_from_slice"]
C17_FUNCS_LCP = [NL + "::get_longest_common_prefix", NL + "::get_prefix", NL + "::get_bit_at", NL + "::get_bit_from_slice"]


def c17_obligations(tier, seed):
    obs = [
        kani_ob("C17.get_prefix", "get_prefix(n) is the canonical zero-padded n-bit prefix; n >= 256 returns self",
                "c17::c17_get_prefix_all", [NL + "::get_prefix"],
                "all 32 bytes symbolic, label_len 0..=256, n any u32; unwind 34", cap=(300, 600), args=NOREACH),
        kani_ob("C17.prefix_ordering", "get_prefix_ordering = next bit of other after self, Invalid otherwise",
                "c17::c17_prefix_ordering_all", [NL + "::get_prefix_ordering", NL + "::get_prefix", NL + "::get_bit_at"],
                "both labels: all 32 bytes symbolic, lengths 0..=256; unwind 34", cap=(300, 600), args=NOREACH),
        kani_ob("C17.ord", "Ord/Eq = (length, bytes lexicographic)", "c17::c17_ord_all", [NL + "::cmp"],
                "both labels fully symbolic incl. lengths beyond 256; unwind 34", cap=(300, 600), args=NOREACH),
    ]
    pfulls = [10] if tier == "quick" else [10, 16, 24]
    lfulls = [6] if tier == "quick" else [6, 10, 16]
    for n in pfulls:
        obs.append(kani_ob("C17.prefix_full_%d" % n, "is_prefix_of <=> bit-string prefix",
                           "c17::c17_prefix_full_%d" % n, C17_FUNCS_PREFIX,
                           "both labels: all bytes symbolic, lengths 0..=%d symbolic; unwind %d" % (n, n + 2),
                           cap=(900, 2400), args=NOREACH))
    for n in lfulls:
        for cfg in ("exp", "wa"):
            obs.append(kani_ob("C17.lcp_full_%d_%s" % (n, cfg),
                               "get_longest_common_prefix = canonical prefix of the common leading bits; empty label absorbing; symmetric",
                               "c17::c17_lcp_full_%d_%s" % (n, cfg), C17_FUNCS_LCP,
                               "both labels: all bytes symbolic, lengths 0..=%d symbolic; unwind %d, memcmp 34" % (n, n + 2),
                               inst={"exp": "ExperimentalConfiguration<ExampleLabel>", "wa": "WhatsAppV1Configuration"}[cfg],
                               cap=(900, 3000)))
    return obs


# ------------------------------------------------------------------------------------------------
# C05
C05_FUNCS = [VB + "::verify_membership", VB + "::verify_nonmembership", NL + "::is_prefix_of",
             NL + "::get_longest_common_prefix", NL + "::get_prefix", NL + "::value", NL + "::to_bytes"]
IDEAL_HASH = "Configuration instantiated at kani_core::model::{ModelWA, ModelEXP}: every hash-like method is an injective " \
             "constructor (hash-consing table, capacity 40); executions in which a digest argument names a not-yet-computed " \
             "output are excluded (no pre-images / cycles)"


def c05_obligations(tier, seed):
    obs = []
    def add(name, claim, bound, role, cap=(900, 3000)):
        cfg = "ModelWA" if "_wa_" in name else "ModelEXP"
        obs.append(kani_ob("C05." + name, claim, "c05::c05_" + name, C05_FUNCS, bound, cap=cap, role=role,
                           inst=cfg, assumes=[IDEAL_HASH]))
    nm_real = "a non-membership proof assembled from a real internal node (its real children, its real sibling path) " \
              "verifies only if the queried label is not a leaf"
    quick = [("nm_real_wa_l2_w4_d0", 2, 4, 0), ("nm_real_wa_l2_w4_d1", 2, 4, 1), ("nm_real_wa_l3_w4_d0", 3, 4, 0),
             ("nm_real_wa_l3_w4_d1", 3, 4, 1), ("nm_real_exp_l3_w4_d0", 3, 4, 0)]
    for name, l, w, d in quick:
        add(name, nm_real, "%d leaves, %d-bit labels (all key sets), anchor at depth %d (any direction choices), query label any %d-bit string; unwind 9, memcmp 34" % (l, w, d, w),
            "nm_sound_real")
    return obs


# ------------------------------------------------------------------------------------------------
# kernels in the akd crate (through the facebook_akd_verif hooks)
TN = "akd/src/tree_node.rs"
TX = "akd/src/storage/transaction.rs"
MG = "akd/src/storage/manager/mod.rs"
TY = "akd/src/storage/types.rs"


def akd_ob(id, claim, harness, functions, bound, cap=(600, 1200), role=None, assumes=(), stubs=(FMT_STUB,)):
    return kani_ob(id, claim, harness, functions, bound, cap=cap, crate="kani_akd", role=role, stubs=stubs,
                   assumes=assumes, args=NOREACH)


def c13_obligations(tier, seed):
    return [akd_ob("C13.select", "for every stored node record (latest + optional previous, every field symbolic) and every target "
                   "epoch t, determine_node_to_get returns a node last written at or before t, or NotFound; the latest node whenever it is old enough",
                   "c13::c13_select_never_newer_than_target", [TN + "::determine_node_to_get"],
                   "no bound except the types (all u64 epochs, all 32-byte labels/hashes); unwind 34", role="select")]


def c11_obligations(tier, seed):
    return [
        akd_ob("C11.partial_write", "a reader pinned at epoch E gets the same node before and after the node is rewritten (once or twice) "
               "for epoch E+1 by the documented shift; a node created in E+1 is NotFound at E; a reader at E+1 sees the new node",
               "c11::c11_partial_write_keeps_previous_epoch", [TN + "::determine_node_to_get"],
               "any stored record whose latest node is not newer than E (all fields symbolic), any new content; unwind 34",
               assumes=["the write side is a restatement (kani_akd::c11::shift) of TreeNode::write_to_storage's record shift, "
                        "because the real writer is async storage code"]),
        akd_ob("C11.epoch_record_last", "DbRecord::transaction_priority orders the epoch (Azks) record strictly after tree-node and value-state records",
               "c11::c11_epoch_record_written_last", [TY + "::transaction_priority"], "all record contents symbolic", stubs=()),
    ]


def c15_obligations(tier, seed):
    wf = "well-formed data for one user: epochs strictly increase within committed (<=3) and within pending (<=2) states, versions "          "increase with epochs across both, a pending record for an already committed epoch keeps its version"
    return [
        akd_ob("C15.pending_pick", "Transaction::find_appropriate_item on the epoch-sorted pending states returns the specified pick for each of the five retrieval flags",
               "c15::c15_pending_pick_matches_spec", [TX + "::find_appropriate_item"],
               "0..=2 pending states, all u64 epochs/versions, all five flags with symbolic arguments; unwind 6", assumes=[wf], stubs=()),
        akd_ob("C15.read_in_tx", "database pick and pending pick combined through compare_db_and_transaction_records (as StorageManager::get_user_state does) "
               "equal the pick over the committed states overridden by pending states of the same epoch, i.e. the read after commit",
               "c15::c15_read_in_transaction_equals_read_after_commit", [MG + "::compare_db_and_transaction_records"],
               "0..=3 committed, 0..=2 pending states, all five flags; unwind 6",
               assumes=[wf, "the database's own pick and the pending pick are the specification's picks (the latter is C15.pending_pick)"], stubs=()),
    ]


KERNEL_ONLY = "kernel-level claim: the named pure functions are decided for all inputs; the async code that calls them " \
              "(StorageManager, Directory, Azks, caches, schedules, crash points) is outside the claim"

PROPERTIES = {
    "C13": {"obligations": c13_obligations, "jobs": 2, "assumptions": [KERNEL_ONLY],
            "outside_claim": ["interleavings with publishes, the change poller, cache flushes; history generation re-reading the epoch record"]},
    "C11": {"obligations": c11_obligations, "jobs": 2, "assumptions": [KERNEL_ONLY],
            "outside_claim": ["crash-point enumeration over a real publish; commit_transaction; key_history's epoch filter"]},
    "C15": {"obligations": c15_obligations, "jobs": 2, "assumptions": [KERNEL_ONLY],
            "outside_claim": ["get_user_data / get_user_state_versions / batch_get / begin / commit / rollback (async manager code)"]},
    "C17": {
        "obligations": c17_obligations,
        "jobs": 8,
        "assumptions": ["Kani models the dev profile (overflow checks on)"],
        "outside_claim": ["lengths > 256 (except Ord)", "symbolic-length prefix/LCP beyond the stated bit widths"],
    },
    "C05_wip": {
        "obligations": c05_obligations,
        "jobs": 8,
        "assumptions": [IDEAL_HASH, "honest tree = reference trie of kani_core::trie (oracle, spec of akd_core/src/lib.rs)"],
        "outside_claim": ["the server-side proof generators (async storage code)", "byte-level blake3 formulas"],
    },
}
