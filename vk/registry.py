"""Obligation registry: for each claimed property, the solver obligations of each tier.

An obligation is one Kani harness (engine 'kani') or one batch of SMT queries over MIR
(engine 'mir'). `cap_s` = (quick cap, thorough cap) in seconds; a run that exceeds its cap is
inconclusive, never a pass.
"""
import random

CFG = "--cfg facebook_akd_verif"
NOREACH = ("-Z", "unstable-options", "--no-assertion-reach-checks")
MEMCMP = NOREACH + ("--cbmc-args", "--unwindset", "memcmp.0:34")

FMT_STUB = "alloc::fmt::format -> kani_core::util::format_stub (returns the empty String: every formatted " \
           "error message compares equal; in the code under test formatted messages are only built on index-out-of-range paths)"

NL = "akd_core/src/types/node_label/mod.rs"
VB = "akd_core/src/verify/base.rs"


def kani_ob(id, claim, harness, functions, bound, cap=(600, 1800), crate="kani_core", role=None,
            stubs=(FMT_STUB,), assumes=(), inst=None, args=MEMCMP, mem_gb=12):
    return {"id": id, "engine": "kani", "crate": crate, "harness": harness, "claim": claim,
            "functions": list(functions), "bound": bound, "cap_s": cap, "rustflags": CFG,
            "stubs": list(stubs), "assumes": list(assumes), "instantiation": inst,
            "kani_args": tuple(args), "role": role or id, "mem_gb": mem_gb}


# ------------------------------------------------------------------------------------------------
# C17
C17_FUNCS_PREFIX = [NL + "::is_prefix_of", NL + "::get_bit_at", NL + "::get_bit_from_slice"]
C17_FUNCS_LCP = [NL + "::get_longest_common_prefix", NL + "::get_prefix", NL + "::get_bit_at", NL + "::get_bit_from_slice"]


def c17_obligations(tier, seed):
    obs = [
        kani_ob("C17.get_prefix", "get_prefix(n) is the canonical zero-padded n-bit prefix; n >= 256 returns self",
                "c17::c17_get_prefix_all", [NL + "::get_prefix"],
                "all 32 bytes symbolic, label_len 0..=256, n any u32; unwind 34", cap=(300, 600), args=NOREACH),
        kani_ob("C17.prefix_ordering", "get_prefix_ordering = next bit of other after self, Invalid otherwise",
                "c17::c17_prefix_ordering_all", [NL + "::get_prefix_ordering", NL + "::get_prefix", NL + "::get_bit_at"],
                "both labels: all 32 bytes symbolic, lengths 0..=256; unwind 34", cap=(300, 600), args=NOREACH),
        kani_ob("C17.ord", "Ord/Eq = (length, bytes lexicographic)", "c17::c17_ord_all", [NL + "::cmp"],
                "both labels fully symbolic incl. lengths beyond 256; unwind 34", cap=(300, 600), args=NOREACH),
    ]
    pfulls = [10] if tier == "quick" else [10, 16, 24]
    lfulls = [6] if tier == "quick" else [6, 10, 16]
    for n in pfulls:
        obs.append(kani_ob("C17.prefix_full_%d" % n, "is_prefix_of <=> bit-string prefix",
                           "c17::c17_prefix_full_%d" % n, C17_FUNCS_PREFIX,
                           "both labels: all bytes symbolic, lengths 0..=%d symbolic; unwind %d, memcmp 34" % (n, n + 2),
                           cap=(900, 2400)))
    for n in lfulls:
        for cfg in ("exp", "wa"):
            obs.append(kani_ob("C17.lcp_full_%d_%s" % (n, cfg),
                               "get_longest_common_prefix = canonical prefix of the common leading bits; empty label absorbing; symmetric",
                               "c17::c17_lcp_full_%d_%s" % (n, cfg), C17_FUNCS_LCP,
                               "both labels: all bytes symbolic, lengths 0..=%d symbolic; unwind %d, memcmp 34" % (n, n + 2),
                               inst={"exp": "ExperimentalConfiguration<ExampleLabel>", "wa": "WhatsAppV1Configuration"}[cfg],
                               cap=(900, 3000)))
    pairs = [("33_40_wa", 33, 40), ("48_48_wa", 48, 48), ("64_65_exp", 64, 65)]
    if tier == "thorough":
        pairs += [("40_33_exp", 40, 33), ("71_72_wa", 71, 72), ("128_130_wa", 128, 130), ("255_256_wa", 255, 256), ("256_256_exp", 256, 256)]
    for nm, a, b in pairs:
        obs.append(kani_ob("C17.pair_" + nm, "is_prefix_of and get_longest_common_prefix agree with the bit-string meaning for labels of the concrete lengths (%d, %d)" % (a, b),
                           "c17::c17_pair_" + nm, C17_FUNCS_PREFIX + C17_FUNCS_LCP, "all 64 bytes of the two labels symbolic, lengths %d and %d concrete; unwind 258" % (a, b),
                           cap=(1200, 3000), inst="WhatsAppV1Configuration" if nm.endswith("wa") else "ExperimentalConfiguration<ExampleLabel>"))
    # set operations of the akd crate (through the hooks)
    AZ = "akd/src/append_only_zks.rs"
    setf = [AZ + "::from", AZ + "::partition", AZ + "::get_longest_common_prefix#0", AZ + "::contains_prefix", NL + "::get_prefix_ordering", NL + "::is_prefix_of"]
    sets = [("from_sorted_and_order_independent", "AzksElementSet::from turns any ordering of an equal-length set into the same sorted sequence (no element lost or invented); mixed lengths stay unsorted",
             "3 elements of 8-bit labels, all byte values; unwind 8"),
            ("partition_sorted_p0", "partition of the sorted representation around a common prefix = the bit-string split on the next bit, nothing dropped", "3 elements, 8-bit labels, prefix length 0"),
            ("partition_sorted_p3", "partition of the sorted representation around a common prefix = the bit-string split on the next bit, nothing dropped", "3 elements, 8-bit labels, prefix length 3"),
            ("partition_sorted_p7", "partition of the sorted representation around a common prefix = the bit-string split on the next bit, nothing dropped", "3 elements, 8-bit labels, prefix length 7"),
            ("partition_prefix_equal_to_element", "both representations drop an element whose label equals the prefix label", "1 element"),
            ("lcp_wa", "common prefix of a set: sorted = unsorted = canonical prefix of the common leading bits", "3 elements, 8-bit labels, WhatsAppV1Configuration"),
            ("lcp_exp", "common prefix of a set: sorted = unsorted = canonical prefix of the common leading bits", "3 elements, 8-bit labels, ExperimentalConfiguration"),
            ("contains_q0", "contains_prefix: binary search = linear scan = 'some element starts with the query'", "3 elements, query length 0"),
            ("contains_q3", "contains_prefix: binary search = linear scan = 'some element starts with the query'", "3 elements, query length 3"),
            ("contains_q8", "contains_prefix: binary search = linear scan = 'some element starts with the query'", "3 elements, query length 8")]
    if tier == "quick":
        sets = [x for x in sets if x[0] not in ("partition_sorted_p0", "lcp_exp", "contains_q0")]
    for nm, claim, bound in sets:
        obs.append(kani_ob("C17.set_" + nm, claim, "c17s::c17s_" + nm, setf, bound, cap=(900, 1800), crate="kani_akd", role="set_ops"))
    return obs


# ------------------------------------------------------------------------------------------------
# C05
C05_FUNCS = [VB + "::verify_membership", VB + "::verify_nonmembership", NL + "::is_prefix_of",
             NL + "::get_longest_common_prefix", NL + "::get_prefix", NL + "::value", NL + "::to_bytes"]
IDEAL_HASH = "Configuration instantiated at kani_core::model::{ModelWA, ModelEXP}: every hash-like method is an injective " \
             "constructor (hash-consing table, capacity 40); executions in which a digest argument names a not-yet-computed " \
             "output are excluded (no pre-images / cycles)"


def c05_obligations(tier, seed):
    import json, os
    shapes = json.load(open(os.path.join(os.path.dirname(__file__), "c05_shapes.json")))
    rnd = random.Random(seed)
    obs = []
    claims = {
        "nm": ("for the tree of this shape (all key bits, leaf hashes, query labels symbolic): a non-membership proof assembled from ANY real "
               "internal node (its real children, its real sibling path) verifies only if the queried label is not a leaf; and the proof "
               "anchored at the deepest matching node (honest prover) verifies for every absent label", "nm_real+cn"),
        "cm": ("for the tree of this shape: the honest membership proof of every leaf verifies and carries the leaf's hash", "cm"),
    }

    def add_shape(name):
        kind = name.split("_")[1]
        cfg = "ModelWA" if "_wa_" in name else "ModelEXP"
        claim, role = claims[kind]
        obs.append(kani_ob("C05." + name[5:], claim, "c05::" + name, C05_FUNCS,
                           "one concrete tree shape (first-difference positions of neighbouring sorted keys) + root side; %s; unwind 9/11, memcmp 34" % name,
                           cap=(900, 2400), role=role, inst=cfg, assumes=[IDEAL_HASH]))

    def pick(key, k):
        names = shapes[key]
        if k is None or k >= len(names):
            return list(names)
        return rnd.sample(names, k)

    plan_quick = [("nm_wa_l1_w3", None), ("cm_wa_l1_w3", None), ("nm_exp_l1_w3", None), ("nm_wa_l2_w4", None), ("nm_exp_l2_w4", 4),
                  ("cm_wa_l2_w4", 3), ("cm_exp_l2_w4", 2), ("nm_wa_l3_w4", 6), ("nm_exp_l3_w4", 3), ("cm_wa_l3_w4", 2), ("nm_wa_l2_w3x256", 2)]
    plan_thorough = [("nm_wa_l1_w3", None), ("cm_wa_l1_w3", None), ("nm_exp_l1_w3", None), ("cm_exp_l1_w3", None),
                     ("nm_wa_l2_w4", None), ("nm_exp_l2_w4", None), ("cm_wa_l2_w4", None), ("cm_exp_l2_w4", None),
                     ("nm_wa_l3_w4", None), ("nm_exp_l3_w4", None), ("cm_wa_l3_w4", None), ("cm_exp_l3_w4", None),
                     ("nm_wa_l2_w3x256", None), ("nm_exp_l2_w3x256", None), ("cm_wa_l2_w3x256", None),
                     ("nm_wa_l4_w5", 24), ("nm_exp_l4_w5", 12), ("cm_wa_l4_w5", 8), ("nm_wa_l3_w8x256", 16), ("nm_exp_l3_w8x256", 8)]
    for key, k in (plan_quick if tier == "quick" else plan_thorough):
        for name in pick(key, k):
            add_shape(name)

    # fully symbolic candidate proofs over symbolic-shape trees (crate::trie)
    def add_free(name, claim, bound, role, cap=(900, 3000), mem_gb=12):
        cfg = "ModelWA" if "_wa_" in name else "ModelEXP"
        obs.append(kani_ob("C05." + name, claim, "c05::c05_" + name, C05_FUNCS, bound, cap=cap, role=role, inst=cfg, assumes=[IDEAL_HASH], mem_gb=mem_gb))
    mfree = "a membership proof ALL of whose fields are symbolic (label, hash, every sibling label/value/direction) verifies only if (label, hash) is a real node of the tree"
    nmfree = "a non-membership proof ALL of whose fields are symbolic verifies only if the queried label is not a leaf"
    free_quick = [("m_free_wa_l2_w4_s0", 2, 4, 0), ("m_free_exp_l2_w4_s0", 2, 4, 0), ("m_free_wa_l2_w4_s1", 2, 4, 1)]
    free_thorough = free_quick + [("m_free_exp_l2_w4_s1", 2, 4, 1), ("m_free_wa_l3_w4_s2", 3, 4, 2), ("m_free_exp_l3_w4_s2", 3, 4, 2),
                                  ("m_free_wa_l3_w4_s1", 3, 4, 1), ("m_free_wa_l3_w4_s3", 3, 4, 3)]
    for name, l, w, sib in (free_quick if tier == "quick" else free_thorough):
        add_free(name, mfree, "%d leaves (all key sets, symbolic shape), %d-bit labels, %d sibling proofs, every direction pattern; unwind 9, memcmp 34" % (l, w, sib), "m_sound_free")
    if tier == "thorough":
        for name, l, w, sib in [("nm_free_wa_l2_w4_s0", 2, 4, 0), ("nm_free_wa_l2_w4_s1", 2, 4, 1), ("nm_free_exp_l2_w4_s1", 2, 4, 1)]:
            add_free(name, nmfree, "%d leaves, %d-bit labels, %d sibling proofs; unwind 9, memcmp 34" % (l, w, sib), "nm_sound_free", cap=(1800, 3600), mem_gb=28)
    return obs


# ------------------------------------------------------------------------------------------------
# kernels in the akd crate (through the facebook_akd_verif hooks)
TN = "akd/src/tree_node.rs"
TX = "akd/src/storage/transaction.rs"
MG = "akd/src/storage/manager/mod.rs"
TY = "akd/src/storage/types.rs"


def akd_ob(id, claim, harness, functions, bound, cap=(600, 1200), role=None, assumes=(), stubs=(FMT_STUB,)):
    return kani_ob(id, claim, harness, functions, bound, cap=cap, crate="kani_akd", role=role, stubs=stubs,
                   assumes=assumes, args=NOREACH)


def c13_obligations(tier, seed):
    b = "no bound except the types (all u64 epochs, every field of latest/previous node symbolic, previous present or absent); unwind 34"
    f = [TN + "::determine_node_to_get"]
    return [
        akd_ob("C13.select_not_newer", "for every stored node record and every target epoch t, determine_node_to_get returns a node last "
               "written at or before t, or NotFound (never the state of a later epoch)",
               "c13::c13_select_never_newer_than_target", f, b, role="select_not_newer"),
        akd_ob("C13.select_exact", "the node returned is exactly the stored latest node when it is old enough, otherwise exactly the stored previous node",
               "c13::c13_select_returns_stored_node_unchanged", f, b, role="select_exact"),
        akd_ob("C13.select_available", "NotFound is returned only when neither the latest nor the previous node is old enough",
               "c13::c13_select_notfound_only_when_nothing_qualifies", f, b, role="select_available"),
        {"id": "C13.epoch_reads", "engine": "mir", "kind": "epochreads",
         "claim": "on every control-flow path of a read request (Directory / ReadOnlyDirectory ::get_epoch_hash, lookup, batch_lookup, key_history, audit) the epoch (Azks) record is read "
                  "at most once, so that the epoch and root hash an answer names and the tree nodes its proofs are built from come from one reading of the directory's epoch",
         "functions": ["akd/src/directory.rs::get_epoch_hash", "akd/src/directory.rs::lookup", "akd/src/directory.rs::batch_lookup", "akd/src/directory.rs::key_history", "akd/src/directory.rs::audit",
                       "akd/src/directory.rs::create_single_update_proof", "akd/src/directory.rs::retrieve_azks", "akd/src/directory.rs::get_azks_from_storage"], "width": 64,
         "bound": "no loop bound (Horn-clause reachability over (basic block, read count capped at 2) decided by z3's fixedpoint engine); data abstracted: every branch may be taken; "
                  "all coroutine bodies of the akd crate reachable from the five requests, interprocedurally",
         "query_cap_s": 120, "cap_s": (600, 600), "stubs": [], "role": "epoch_reads", "instantiation": "generic MIR of the akd crate (features public_auditing, experimental, whatsapp_v1; no preload / parallel features)",
         "assumes": ["a future of another async fn of the crate is awaited exactly once where it is built (`.await` desugaring); boxed / spawned futures of other crates contribute no epoch-record read",
                     "over-approximation of feasible paths: a reported path is confirmed by the native schedule search native_stitch before it is reported",
                     "what 'at most one read' buys - tree nodes are served as of the epoch read - is the selection kernel's claim (the three Kani obligations) plus C11's writer shift"]},
    ]


def c11_obligations(tier, seed):
    return [
        akd_ob("C11.partial_write", "a reader pinned at epoch E gets the same node before and after the node is rewritten (once or twice) "
               "for epoch E+1 by the documented shift; a node created in E+1 is NotFound at E; a reader at E+1 sees the new node",
               "c11::c11_partial_write_keeps_previous_epoch", [TN + "::determine_node_to_get"],
               "any stored record whose latest node is not newer than E (all fields symbolic), any new content; unwind 34",
               assumes=["the write side is a restatement (kani_akd::c11::shift) of TreeNode::write_to_storage's record shift, because Kani cannot execute the async writer; "
                        "that the real writer performs exactly this shift is decided on its MIR by obligation C11.writer_shift"]),
        {"id": "C11.writer_shift", "engine": "mir", "kind": "writer",
         "claim": "the record TreeNode::write_to_storage writes for a node is {label: self.label, latest_node: self.clone(), previous_node: the node as of last_epoch-1 "
                  "(looked up exactly when the node is not new, at exactly that epoch; None if new or NotFound)}; any other lookup error is returned without writing; no arithmetic panic",
         "functions": [TN + "::write_to_storage#1"], "width": 64,
         "bound": "all 64-bit last_epoch, is_new, every outcome of the awaited lookup (Ok / NotFound / other error) and of the awaited storage write; the coroutine's MIR is walked from its initial state "
                  "with every await completing (the function has no loop)",
         "query_cap_s": 120, "cap_s": (600, 600), "stubs": [], "role": "writer_shift", "instantiation": None,
         "assumes": ["awaited futures are opaque: get_appropriate_tree_node_from_storage returns an arbitrary Result, the final storage write an arbitrary Result (their own behaviour is C13's kernel / outside the claim)"]},
        akd_ob("C11.epoch_record_last", "DbRecord::transaction_priority orders the epoch (Azks) record strictly after tree-node and value-state records",
               "c11::c11_epoch_record_written_last", [TY + "::transaction_priority"], "all record contents symbolic", stubs=()),
    ]


def c16_obligations(tier, seed):
    MGR = "akd/src/storage/manager/mod.rs"
    commit = dict([o for o in c10_obligations(tier, seed) if o["id"] == "C10.commit_step"][0])
    commit["id"] = "C16.commit_step"
    commit["claim"] = "the transaction commit leaves nothing in the object cache that the database did not accept (same obligation as C10.commit_step, clause K2)"
    return [
        {"id": "C16.manager_paths", "engine": "mir", "kind": "cache",
         "claim": "StorageManager::{set, batch_set}: inside a transaction only the log is written; outside, a record the database rejects is not left in the cache and Err is returned exactly then; the "
                  "cache gets exactly the records the database gets. get_from_cache_only / get: transaction log (only when open) before cache before database, the record found is returned unchanged; "
                  "a database read that succeeds is returned and it is that record that is cached, one that fails caches nothing. flush_cache flushes whenever there is a cache",
         "functions": [MGR + "::set", MGR + "::batch_set", MGR + "::get", MGR + "::get_from_cache_only", MGR + "::flush_cache"], "width": 64,
         "bound": "every path of the five coroutines: cache present / absent, transaction open / closed, log / cache hit or miss, database call Ok / Err; every await completes; no loops except batch_set's none",
         "query_cap_s": 120, "cap_s": (600, 600), "stubs": [], "role": "manager_paths", "instantiation": "generic MIR (any Database, any Storable)",
         "assumes": ["TimedCache::{put, batch_put, hit_test, flush}, Transaction::{get, set, batch_set} and the Database calls are opaque events: that the cache returns what was put and expires nothing "
                     "it should keep is NOT decided (TimedCache internals, timing, memory pressure are outside)", "batch_get and the user-state queries are outside this kernel"]},
        commit,
    ]


def c10_obligations(tier, seed):
    MGR = "akd/src/storage/manager/mod.rs"
    txn = dict([o for o in c15_obligations(tier, seed) if o["id"] == "C15.txn_log"][0])
    txn["id"] = "C10.txn_log"
    txn["claim"] = "the transaction log itself: rollback discards every pending record and closes the transaction; commit drains the log and closes it; refused operations change nothing (same obligation as C15.txn_log)"
    return [
        {"id": "C10.commit_step", "engine": "mir", "kind": "commit",
         "claim": "StorageManager::commit_transaction drains the transaction log before anything else on every path (no transaction is left open); on every path on which the database write "
                  "does not succeed the records of the commit are not left in the object cache (not put, or flushed afterwards); it returns Ok only for an empty log or a successful write and Err "
                  "whenever the write failed; what is written to the database (state TransactionCommit) and put into the cache is the vector the log returned",
         "functions": [MGR + "::commit_transaction"], "width": 64,
         "bound": "every path of the coroutine from its initial state: cache present or absent, log empty or not, last record an epoch record or not, log commit and database write each Ok or Err; "
                  "every await completes; the function has no loop",
         "query_cap_s": 120, "cap_s": (600, 600), "stubs": [], "role": "commit_step", "instantiation": "generic MIR (any Database)",
         "assumes": ["callees are opaque events: Transaction::commit_transaction (decided by C10.txn_log), TimedCache::{enable_clean, batch_put, flush}, Database::batch_set (fails as a whole or succeeds)",
                     "read failures during a publish, the rollback calls in Directory::publish and everything a later publish does are outside this kernel"]},
        {"id": "C10.publish_paths", "engine": "mir", "kind": "publish",
         "claim": "Directory::publish: no transaction is left open on any returning path (opened => committed or rolled back; a refused begin writes, commits and rolls back nothing); an error means "
                  "'not committed' (nothing fallible follows a successful commit); nothing is inserted or written outside the transaction; Ok only after a successful commit or when nothing changes; "
                  "auxiliary: StorageManager::batch_set cannot fail while a transaction is open",
         "functions": ["akd/src/directory.rs::publish", MGR + "::batch_set"], "width": 64,
         "bound": "every path of the coroutine with each loop body executed at most once (loop bound 1; the loops derive the update set and do not touch the transaction), every callee an event "
                  "returning an arbitrary value of its type, logging off, every await completes",
         "query_cap_s": 120, "cap_s": (600, 600), "stubs": [], "role": "publish_paths", "instantiation": "generic MIR (any Configuration, Database, VRF)",
         "assumes": ["callees opaque (commit step: C10.commit_step; transaction log: C10.txn_log; tree insertion is outside every claim)",
                     "paths that iterate a loop twice or more are pruned (stated bound)"]},
        txn,
    ]


def c15_obligations(tier, seed):
    wf = "well-formed data for one user: epochs strictly increase within committed (<=3) and within pending (<=2) states, versions "          "increase with epochs across both, a pending record for an already committed epoch keeps its version"
    return [
        akd_ob("C15.pending_pick", "Transaction::find_appropriate_item on the epoch-sorted pending states returns the specified pick for each of the five retrieval flags",
               "c15::c15_pending_pick_matches_spec", [TX + "::find_appropriate_item"],
               "0..=2 pending states, all u64 epochs/versions, all five flags with symbolic arguments; unwind 6", assumes=[wf], stubs=()),
        akd_ob("C15.read_in_tx", "database pick and pending pick combined through compare_db_and_transaction_records (as StorageManager::get_user_state does) "
               "equal the pick over the committed states overridden by pending states of the same epoch, i.e. the read after commit",
               "c15::c15_read_in_transaction_equals_read_after_commit", [MG + "::compare_db_and_transaction_records"],
               "0..=3 committed, 0..=2 pending states, all five flags; unwind 6",
               assumes=[wf, "the database's own pick and the pending pick are the specification's picks (the latter is C15.pending_pick)"], stubs=()),
        akd_ob("C15.bulk_read_in_tx", "the bulk query's ingredients - the database entry's version, the pending pick and the version arbiter compare_db_version_and_transaction_record - combined as "
               "StorageManager::get_user_state_versions combines them (wiring: C15.bulk_versions) give the (version, record) of the bulk read after commit",
               "c15::c15_bulk_read_in_transaction_equals_bulk_read_after_commit", [MG + "::compare_db_version_and_transaction_record"],
               "0..=3 committed, 0..=2 pending states, all five flags; unwind 6",
               assumes=[wf, "the database's own pick and the pending pick are the specification's picks (the latter is C15.pending_pick)"], stubs=()),
        {"id": "C15.bulk_versions", "engine": "mir", "kind": "bulk",
         "claim": "StorageManager::get_user_state_versions (async body, walked on its MIR): the database is asked first and its error returned; the transaction log is consulted exactly when a transaction is open, "
                  "with the same users and flag; every entry written into the answer is (version, value) of ONE pending record - the one the version arbiter returned, or the pending record itself when the "
                  "database has no entry - never a pending record's epoch and never the database's version paired with a pending value; the arbiter is given the database entry's version, the pending record "
                  "and the caller's flag, and the answer is overwritten exactly when it returns a record. The defect F-C15 (epoch and version confused in all three places; fixed) was such a path",
         "functions": [MG + "::get_user_state_versions"], "width": 64,
         "bound": "every path of the coroutine with the loop over pending users executed at most once (iterations communicate only through the opaque answer map); callees are events",
         "query_cap_s": 120, "cap_s": (600, 600), "stubs": [], "role": "bulk_versions", "instantiation": None,
         "assumes": ["HashMap get / insert / into_iter semantics are std's", "Transaction::get_users_states applies the pending pick (C15.pending_pick) per user: not decided",
                     "counterexamples are confirmed by native_bulk (real StorageManager over the in-memory database, in-transaction answer vs. answer after commit)"]},
        {"id": "C15.user_state_wiring", "engine": "mir", "kind": "bulkwiring",
         "claim": "StorageManager::get_user_state (async body) and Transaction::get_users_states, walked on their MIR, compose their ingredients as C15.read_in_tx / C15.bulk_read_in_tx assume: database first (errors other than "
                  "NotFound returned as is), transaction log exactly when a transaction is open and for the same user and flag, compare_db_and_transaction_records(database record's epoch, pending record, flag) arbitrates and its "
                  "choice (or the database's record) is what is returned, only-pending / only-database / neither give the pending record / the database's record / NotFound, only a clone of the database's record is ever cached; "
                  "get_users_states applies find_appropriate_item to each user's pending states with the caller's flag and inserts the pick under that user",
         "functions": [MG + "::get_user_state", TX + "::get_users_states"], "width": 64,
         "bound": "every path of the two bodies (11 + 3), the loop of get_users_states executed at most once; callees are events",
         "query_cap_s": 120, "cap_s": (600, 600), "stubs": [], "role": "user_state_wiring", "instantiation": None,
         "assumes": ["HashMap semantics are std's", "Transaction::get_user_state / get_users_data (scans of the DashMap) are events: that they return the user's pending states sorted by epoch is not decided",
                     "counterexamples are confirmed by native_bulk (which also compares get_user_state inside the transaction with the read after commit)"]},
        {"id": "C15.txn_log", "engine": "mir", "kind": "txn",
         "claim": "Transaction::begin_transaction succeeds exactly when no transaction is open; commit_transaction / rollback_transaction without an open transaction return Err and change nothing; "
                  "commit returns a clone of EVERY pending record exactly once, sorted by DbRecord::transaction_priority ascending (so, with C11.epoch_record_last, the epoch record last), "
                  "empties the log and closes the transaction; rollback empties the log and closes the transaction",
         "functions": [TX + "::begin_transaction", TX + "::commit_transaction", TX + "::rollback_transaction"], "width": 64,
         "bound": "every initial value of the open flag, the pending set an arbitrary (symbolic, unbounded) multiset handled only as a whole; the three functions have no loop of their own",
         "query_cap_s": 120, "cap_s": (600, 600), "stubs": [], "role": "txn_log", "instantiation": None,
         "assumes": ["std / dashmap semantics are the models' (DashMap::iter yields every entry once, clear removes all, sort_by_key sorts by the key, AtomicBool load/store/swap)",
                     "single caller: interleavings of concurrent callers are outside the claim (C12)"]},
    ]


# ------------------------------------------------------------------------------------------------
# C06 / C07 (lookup and history verifiers over the membership oracle)
LK = "akd_core/src/verify/lookup.rs"
HS = "akd_core/src/verify/history.rs"
NOMEM = NOREACH + ("--no-memory-safety-checks", "--cbmc-args", "--unwindset", "memcmp.0:34")
ORACLE = "verify_membership / verify_nonmembership are stubbed (-Z stubbing) by the membership oracle over the honest leaf set " \
         "(kani_core::dirmodel): accepted iff (label, hash) is a leaf / iff the label is not a leaf. Justified by C05 within its bounds; " \
         "natively (replay) nothing is stubbed and real proofs from the reference trie are used"
IDEAL_VRF = "ideal VRF through the facebook_akd_verif hook Configuration::verif_verify_label: a VRF proof verifies exactly for the node label " \
            "assigned to (freshness, version) of this label; labels of different (freshness, version) differ (symbolic leading byte)"
MEMOFF = "Kani memory-safety (pointer validity) checks are switched off for these harnesses: Kani's allocator model double-frees in the drop glue of " \
         "partially moved structs (VerifyResult { value: proof.value }), which makes them fail spuriously; functional assertions, panics, overflow and bounds checks stay on"
HONEST = "honest directory state for one label: 1..=3 versions, one-byte values and nonces, strictly increasing epochs <= current epoch <= 7"
L1_FUNCS = [VB + "::verify_existence", VB + "::verify_existence_with_val", VB + "::verify_existence_with_commitment", VB + "::verify_nonexistence", VB + "::verify_label"]


def l1_obligations(which):
    claims = {
        "with_val": "verify_existence_with_val accepts exactly when the presented (value, epoch, nonce, freshness, version, label, hash) is the honest fresh leaf of that version",
        "existence": "verify_existence accepts exactly when (label, hash) is the honest fresh/stale leaf of that (freshness, version)",
        "with_commitment": "verify_existence_with_commitment (stale commitment) accepts exactly when (label, hash) is the honest stale leaf of that version and the epoch is the one stamped on it",
        "nonexistence": "verify_nonexistence accepts exactly when the label is the node label of (freshness, version) and no such leaf exists",
    }
    names = {
        "with_val": ["wa_v1_c1", "wa_v0_c1", "wa_v2_c1", "wa_v1_c0", "wa_v1_c2", "exp_v1_c1", "exp_v0_c1", "exp_v1_c2"],
        "existence": ["wa", "wa_missing", "exp"],
        "with_commitment": ["wa", "wa_late", "exp", "exp_late"],
        "nonexistence": ["wa", "wa_missing", "exp"],
    }
    obs = []
    for fam in which:
        for nm in names[fam]:
            obs.append(kani_ob("L1.%s_%s" % (fam, nm), claims[fam] + " (for every symbolic input; helper vs. its specification)",
                               "c07l1::l1_%s_%s" % (fam, nm), L1_FUNCS,
                               HONEST + "; adversarial value/nonce lengths 0..=2, any epoch/version/freshness, any presented label (VRF label of any (freshness, version<8) or any other 256-bit label) and any honest or foreign leaf hash; unwind 9",
                               cap=(600, 1200), role="l1_" + fam, inst="ModelWA" if nm.startswith("wa") else "ModelEXP",
                               assumes=[IDEAL_HASH, ORACLE, IDEAL_VRF, MEMOFF], args=NOMEM))
    return obs


def c06_obligations(tier, seed):
    obs = []
    snd = "lookup_verify accepts a proof only if the reported (value, version, epoch) are those of the label's latest update"
    insts = [("wa_n3_v1_c1", 1, 1), ("wa_n3_v0_c1", 0, 1), ("wa_n3_v1_c0", 1, 0), ("exp_n3_v1_c1", 1, 1)]
    if tier == "thorough":
        insts += [("wa_n3_v2_c1", 2, 1), ("wa_n3_v1_c2", 1, 2), ("exp_n3_v0_c1", 0, 1), ("exp_n3_v1_c2", 1, 2)]
    for nm, vl, nl in insts:
        obs.append(kani_ob("C06.sound_" + nm, snd, "c06::c06_sound_" + nm, [LK + "::lookup_verify", "akd_core/src/utils.rs::get_marker_version_log2"] + L1_FUNCS,
                           HONEST + "; every field of the LookupProof symbolic: version/epoch any u64, value of %d bytes, nonce of %d bytes, each of the three tree proofs for any presented "
                           "label and any digest; unwind 9" % (vl, nl), cap=(600, 1200), role="lookup_sound",
                           inst="ModelWA" if nm.startswith("wa") else "ModelEXP", assumes=[IDEAL_HASH, ORACLE, IDEAL_VRF, MEMOFF], args=NOMEM))
    for cfg in ("wa", "exp"):
        obs.append(kani_ob("C06.complete_%s_n3" % cfg, "the honest lookup proof (latest version, marker 2^floor(log n), absence of the stale label) verifies and reports the latest update",
                           "c06::c06_complete_%s_n3" % cfg, [LK + "::lookup_verify"] + L1_FUNCS, HONEST + "; unwind 9", cap=(600, 1200), role="lookup_complete",
                           inst="ModelWA" if cfg == "wa" else "ModelEXP", assumes=[IDEAL_HASH, ORACLE, IDEAL_VRF, MEMOFF], args=NOMEM))
    obs += l1_obligations(["with_val", "existence", "nonexistence"] if tier == "thorough" else ["existence", "nonexistence"])
    return obs


def c07_obligations(tier, seed):
    import json, os
    obs = l1_obligations(["with_val", "existence", "with_commitment", "nonexistence"])
    if tier == "quick":
        keep = {"L1.with_val_wa_v1_c1", "L1.with_val_exp_v1_c1", "L1.with_val_wa_v0_c1", "L1.existence_wa", "L1.with_commitment_wa", "L1.with_commitment_wa_late",
                "L1.with_commitment_exp", "L1.nonexistence_wa", "L1.nonexistence_wa_missing"}
        obs = [o for o in obs if o["id"] in keep]
    # shape layer: verify_with_history_params with symbolic versions
    shape_names = json.load(open(os.path.join(os.path.dirname(__file__), "c07shape_instances.json")))
    if tier == "quick":
        shape_names = [n for n in shape_names if ("_k3_" in n or "_k4_p0_f1" in n or "_k2_p0" in n or "_k1_p1" in n or "_k0_" in n or "_mm_" in n)]
    for nm in shape_names:
        obs.append(kani_ob("C07." + nm[4:], "verify_with_history_params accepts k update proofs with ARBITRARY versions only if they are consecutive and decreasing, start >= 1, end <= epoch, "
                           "the start/count relation of the parameter holds, the returned marker sets are those of (start, end, epoch) and the proof carries exactly that many marker proofs",
                           "c07shape::" + nm, [HS + "::verify_with_history_params"],
                           "k update proofs with symbolic versions <= 8, epoch symbolic <= 7, parameter Complete / MostRecent(0..=6) symbolic, marker vectors of the concrete lengths in the name; unwind 9",
                           cap=(600, 1200), role="history_shape", assumes=["get_marker_versions stubbed by a table regenerated from the REAL function on this run (tools/gen_marker_table.py, exhaustive for s<=n<=E<=7; the function itself is C08's subject)"],
                           args=NOREACH + ("--cbmc-args", "--unwindset", "memcmp.0:34")))
    # update layer: verify_single_update_proof with the real helpers
    upd = [("sound_wa_val_prev", "upd_sound"), ("sound_wa_val_noprev", "upd_sound"), ("sound_wa_tomb_prev", "upd_sound"), ("sound_wa_tomb_noprev", "upd_sound"),
           ("sound_exp_val_prev", "upd_sound"), ("sound_exp_tomb_noprev", "upd_sound"), ("latestale_wa_missing", "upd_latestale"), ("latestale_wa_late", "upd_latestale"),
           ("known_v1_tombstone_epoch_wa", "history_known"), ("complete_wa", "upd_complete"), ("complete_wa_tomb", "upd_complete"), ("complete_exp", "upd_complete")]
    if tier == "thorough":
        upd += [("sound_exp_tomb_prev", "upd_sound"), ("latestale_exp_late", "upd_latestale"), ("known_v1_tombstone_epoch_exp", "history_known")]
    uclaims = {
        "upd_sound": "verify_single_update_proof accepts an update proof (every field symbolic) only if version, epoch and value are the honest entry of that version; a tombstone only when the "
                     "verifier opted in; for version > 1 only with the previous version's stale leaf stamped with the same epoch",
        "upd_latestale": "on a tree whose stale marker of a superseded version is missing or carries another epoch, no update proof for the replacing version verifies",
        "history_known": "same as upd_sound including the epoch of a tombstoned version 1 (known finding F-C07: that epoch is bound to nothing in the tree)",
        "upd_complete": "the honest update proof of every version verifies (with the value, or tombstoned with opt-in) and reports the true version and epoch",
    }
    for nm, role in upd:
        obs.append(kani_ob("C07.upd_" + nm, uclaims[role], "c07upd::c07_upd_" + nm, [HS + "::verify_single_update_proof"] + L1_FUNCS,
                           HONEST + "; one update proof: epoch/version any u64, one-byte or tombstone value, one-byte nonce, any presented labels and leaf hashes, tombstone opt-in symbolic; unwind 9",
                           cap=(600, 1200), role=role, inst="ModelWA" if "_wa" in nm else "ModelEXP", assumes=[IDEAL_HASH, ORACLE, IDEAL_VRF, MEMOFF], args=NOMEM))
    obs.append({"id": "C07.glue", "engine": "mir", "kind": "glue",
                "claim": "key_history_verify returns Ok(results) only on paths on which verify_with_history_params (with the history parameter of the given verification parameter), "
                         "verify_single_update_proof for EVERY update proof (in order, with the caller's root hash, key, label and parameter), verify_existence for EVERY past marker and "
                         "verify_nonexistence for EVERY future marker (each with its own version, VRF proof and tree proof, freshness Fresh) were called and returned Ok, the update epochs are "
                         "non-increasing, and results are exactly the per-update results in order; no panic; conversely it returns Ok when all of these succeed",
                "functions": ["akd_core/src/verify/history.rs::key_history_verify"], "width": 64,
                "bound": "k = 1..3 update proofs, p, f = 0..2 markers (quick); k = 1..4, p, f = 0..3 (thorough); epochs 64-bit symbols; every ingredient call returns an arbitrary Result",
                "query_cap_s": 120, "cap_s": (900, 1800), "stubs": [], "role": "history_glue", "instantiation": "generic MIR (before monomorphisation: holds for every Configuration)",
                "assumes": ["the ingredients are opaque here and decided by the other C07 layers: verify_with_history_params (shape), verify_single_update_proof (update), verify_existence / verify_nonexistence (L1)",
                            "the marker vectors of the proof have the lengths verify_with_history_params returned (its post-condition, asserted by the shape layer)",
                            "panics inside callees (unwind edges) are outside the claim"]})
    return obs


# ------------------------------------------------------------------------------------------------
# C08 (Engine M: MIR -> SMT)
UT = "akd_core/src/utils.rs"
GMV = [UT + "::get_marker_versions", UT + "::find_max_index_in_skiplist", UT + "::get_marker_version_log2", UT + "::get_bit_length"]
STD_TRUST = "semantic models of std entry points used by the encoded MIR: Vec::<u64>::{new,push,len,is_empty,index,extend_from_slice}, " \
            "Range/Rev<Range>::{into_iter,rev,next}, u64::leading_zeros, <[u64]>::is_empty, <[u64;7] as Index<Range<usize>>>::index, panic_fmt"


def mir_ob(id, kind, claim, functions, width, bound, cap):
    return {"id": id, "engine": "mir", "kind": kind, "claim": claim, "functions": functions, "width": width, "bound": bound,
            "query_cap_s": cap, "cap_s": (cap * 8, cap * 8), "stubs": [], "assumes": [STD_TRUST], "role": kind, "instantiation": None}


def c08_obligations(tier, seed):
    w = 8 if tier == "quick" else 16
    cap = 300 if tier == "quick" else 1500
    wb = "all 1 <= s <= n <= E < 2^%d (64-bit bit-vectors, unwind %d; unwinding assertions are queries); larger epochs outside the claim" % (w, w + 2)
    obs = [
        mir_ob("C08.V", "validate", "translator validation: the SMT encoding of get_marker_versions (from this run's MIR dump) agrees with the real "
               "function executed natively on the repository's test vectors, seeded random triples up to 64 bits and panicking inputs",
               GMV, 64, "concrete inputs up to 64 bits; unwind 66", cap),
        mir_ob("C08.M1", "m1", "get_marker_versions never panics, its loops terminate within the bound, past markers are strictly increasing in [1,s), "
               "future markers strictly increasing in (n,E]; past depends only on s and future only on (n,E)", GMV, w, wb, cap),
        mir_ob("C08.M5", "m5", "server and verifier compute the same lookup marker: directory::get_marker_version(v) = utils::get_marker_version_log2(v) "
               "and 1 << it is the largest power of two <= v, for all v >= 1",
               [UT + "::get_marker_version_log2", "akd/src/directory.rs::get_marker_version"], 64, "all 64-bit v >= 1 (loop-free)", cap),
        mir_ob("C08.M6", "m6", "as sets, the real past/future marker vectors equal the closed-form predicates spec_past / spec_future "
               "(independent statement of the documented skip-list construction)", GMV, w, wb, cap),
        mir_ob("C08.M2", "m2", "history/history: for any two history ranges [s1..n], [s2..m] with n < m <= E the versions the first shows absent "
               "(future(n,E)) intersect the versions the second shows present ([s2..m] u past(s2)), on the real code's outputs", GMV, w, wb, cap),
        mir_ob("C08.M4", "m4", "lookup/history: every (n,m,E), n<m<=E, for which lookup(m) (presenting m and 2^floor(log m)) avoids all future markers of a "
               "complete history ending at n on the REAL code is an instance of the documented-construction hole (known finding F-C08); any other hole is a violation",
               GMV, w, wb, cap),
    ]
    # sparse-bit domain: inputs whose set bits lie in {0,1,2,16,17,18,32,33,34}: small perturbations of the
    # skip-list boundaries 2^16 and 2^32, which no small width reaches
    sb = "all 1 <= s <= n <= E whose set bits lie in positions {0,1,2,16,17,18,32,33,34} (unwind 37); other large epochs outside the claim"
    scap = 900 if tier == "quick" else 2400
    def sparse_ob(id, kind, claim, part=None):
        o = mir_ob(id, kind, claim, GMV, "sparse", sb, scap)
        if part:
            o["part"] = part
        return o
    obs += [
        sparse_ob("C08.M6s_past", "m6", "M6 (past markers) on the sparse-bit domain", "past"),
        sparse_ob("C08.M6s_fut_bwd_x", "m6", "M6 (every documented future marker that itself lies in the sparse-bit domain is produced by the real code) on the sparse-bit domain: "
                  "skip-list elements 2^16, 2^32, the powers of two around them and their neighbourhoods", "fut_bwd_x"),
    ]
    if tier == "thorough":
        obs += [sparse_ob("C08.M6s_fut_fwd", "m6", "M6 (every real future marker is a documented one) on the sparse-bit domain", "fut_fwd"),
                sparse_ob("C08.M6s_fut_bwd", "m6", "M6 (every documented future marker is produced by the real code) on the sparse-bit domain", "fut_bwd"),
                sparse_ob("C08.M1s", "m1", "same as M1 on the sparse-bit domain"),
                sparse_ob("C08.M2s", "m2", "same as M2 on the sparse-bit domain"),
                sparse_ob("C08.M4s", "m4", "same as M4 on the sparse-bit domain")]
    return obs


# ------------------------------------------------------------------------------------------------
# C19 (struct-level protobuf conversions)
PR = "akd_core/src/proto/mod.rs"


def c19_obligations(tier, seed):
    f = [PR + "::encode_minimum_label", PR + "::decode_minimized_label", "akd_core/src/hash/mod.rs::try_parse_digest", PR + "::from", PR + "::try_from"]
    obs = []

    def add(h, claim, bound, role, cap=(900, 1800)):
        obs.append(kani_ob("C19." + h, claim, "c19::c19_" + h, f, bound + "; unwind 34-36", cap=cap, role=role, args=NOREACH + ("--cbmc-args", "--unwindset", "memcmp.0:34")))
    add("label_roundtrip", "NodeLabel -> message -> NodeLabel is the identity and the encoded value is minimal (no trailing zero byte)",
        "all 32-byte values, all lengths 0..=256", "roundtrip")
    lens = [0, 31, 32, 33] if tier == "quick" else [0, 1, 31, 32, 33, 34]
    for n in lens:
        add("label_decode_len%d" % n, "a NodeLabel message with arbitrary content never panics the decoder, is rejected exactly when a field is missing, the value is longer than 32 bytes or the "
            "length exceeds 256, and an accepted one decodes to the zero-padded value and survives re-encoding", "value of %d symbolic bytes, label_len any u32, both fields present or absent" % n, "decode_any")
    for n in ([31, 32, 33] if tier == "quick" else [0, 31, 32, 33]):
        add("elem_decode_len%d" % n, "an AzksElement message is rejected exactly when the label or the value is missing or the digest is not 32 bytes; no panic",
            "digest of %d symbolic bytes, any label, fields present or absent" % n, "decode_any")
    for n in (0, 1, 2):
        add("sibling_decode_n%d" % n, "a SiblingProof message is accepted exactly when label and direction are present, at least one sibling is given and (direction & 0xF) is 0 or 1; the first sibling is used",
            "%d siblings, direction any u32" % n, "decode_any")
    for n in (0, 1, 2):
        add("membership_roundtrip_n%d" % n, "MembershipProof -> message -> MembershipProof is the identity", "%d sibling proofs, everything else symbolic" % n, "roundtrip")
    # 0 and 1 children (the vector -> array conversion failing) do not finish within 40 minutes of CBMC: not built
    for n in [2, 3]:
        add("nonmembership_children%d" % n, "a NonMembershipProof message round-trips with exactly 2 children and is rejected with any other number", "%d children" % n, "decode_any", cap=(1200, 2400))
    add("update_roundtrip_with_prev", "UpdateProof -> message -> UpdateProof is the identity (previous-version proof present)", "1-2 byte strings, 0-1 sibling proofs", "roundtrip")
    add("update_roundtrip_without_prev", "UpdateProof -> message -> UpdateProof is the identity (previous-version proof absent)", "1-2 byte strings, 1 sibling proof", "roundtrip")
    add("update_roundtrip_tombstone_with_prev", "a tombstoned UpdateProof (value present and EMPTY) survives the round trip", "empty value, 1-2 byte strings, 0-1 sibling proofs", "roundtrip")
    add("update_roundtrip_tombstone_without_prev", "a tombstoned UpdateProof (value present and EMPTY, no previous-version proof) survives the round trip", "empty value, 1-2 byte strings, 1 sibling proof", "roundtrip")
    for m in (["value", "existence_proof"] if tier == "quick" else ["epoch", "value", "version", "existence_vrf", "existence_proof", "nonce"]):
        add("update_missing_" + m, "an UpdateProof message with the required field removed is rejected", "one required field absent", "decode_any")
    add("lookup_roundtrip", "LookupProof -> message -> LookupProof is the identity", "0-2 byte strings, 0-1 sibling proofs per tree proof", "roundtrip", cap=(1800, 3600))
    # vector level (append-only proofs): kani_core::c19v
    def addv(h, claim, bound, cap=(1200, 2400)):
        obs.append(kani_ob("C19." + h, claim, "c19v::c19v_" + h, f, bound + "; unwind 36", cap=cap, role="roundtrip", args=NOREACH + ("--cbmc-args", "--unwindset", "memcmp.0:34")))
    for a, b in ([(2, 1), (1, 2)] if tier == "quick" else [(0, 0), (1, 0), (0, 1), (2, 1), (1, 2), (3, 3)]):
        addv("single_%d_%d" % (a, b), "SingleAppendOnlyProof -> message -> SingleAppendOnlyProof keeps every inserted and every unchanged node, in order",
             "%d inserted and %d unchanged nodes, labels of 16..=256 bits with two symbolic bytes, digests symbolic" % (a, b))
    for n in ([1] if tier == "quick" else [0, 1]):
        addv("append_only_%d_%d" % (n, n), "AppendOnlyProof -> message -> AppendOnlyProof keeps every inner proof and every epoch, in order", "%d inner proofs, %d epochs" % (n, n))
    missing = ["value"] if tier == "quick" else ["epoch", "value", "version", "existence_vrf", "existence_proof", "marker_vrf", "marker_proof", "freshness_vrf", "nonce"]   # freshness_proof: > 60 min of CBMC, not built
    for m in missing:
        add("lookup_missing_" + m, "a LookupProof message with the field removed is rejected", "one required field absent", "decode_any", cap=(1800, 3600))
    return obs


KERNEL_ONLY = "kernel-level claim: the named pure functions are decided for all inputs; the async code that calls them " \
              "(StorageManager, Directory, Azks, caches, schedules, crash points) is outside the claim"

PROPERTIES = {
    "C19": {"obligations": c19_obligations, "jobs": 12, "assumptions": ["struct level: the byte-level wire codec of the third-party protobuf crate (write_to_bytes / parse_from_bytes) is not encoded"],
            "outside_claim": ["arbitrary / truncated / bit-flipped BYTES (the protobuf crate's parser)", "the vectors of HistoryProof, two or more inner proofs of an AppendOnlyProof and malformed elements inside a vector (CBMC does not finish); SingleAppendOnlyProof with 0-3 nodes and AppendOnlyProof with 0-1 inner proofs are covered",
                              "AuditBlobName string parsing, the wasm client", "'verifying the decoded proof gives the same result' follows from identity of the decoded value"]},
    "C06": {"obligations": c06_obligations, "jobs": 10, "assumptions": [IDEAL_HASH, ORACLE, IDEAL_VRF, MEMOFF],
            "outside_claim": ["values/nonces longer than 2 bytes, more than 3 versions, epochs > 7", "the real ECVRF and blake3", "dishonest trees (C08)"]},
    "C07": {"obligations": c07_obligations, "jobs": 8, "assumptions": [IDEAL_HASH, ORACLE, IDEAL_VRF, MEMOFF],
            "outside_claim": ["key_history_verify as ONE Kani harness (built and withdrawn, DESIGN.md section 9): its body is decided on its MIR by C07.glue with the ingredients opaque, "
                              "the ingredients by the Kani layers; the composition of the two is an argument, not a solver query",
                              "more than 4 update proofs (shape) / 3 honest versions, epochs > 7", "the real ECVRF and blake3", "the server-side tombstoning (C20)"]},
    "C08": {"obligations": c08_obligations, "jobs": 9,
            "assumptions": ["accepted lookup(m) commits the server to fresh(m), fresh(2^floor(log m)) present and stale(m) absent; accepted history [s..n] to fresh(v) present "
                            "for v in [s..n] u past(s), stale(v) present for v in [s-1..n-1], fresh(v) absent for v in future(n,E) (read off akd_core/src/verify/{lookup,history}.rs; "
                            "decided for the verifiers under C06/C07)",
                            "no well-formed tree admits both a membership and a non-membership proof of one label (C05, within its bounds)", STD_TRUST],
            "outside_claim": ["epochs >= 2^W for the stated width W", "malformed (non-canonical) trees: out of scope of the property's quantifier (leaf sets in a canonical trie)"]},
    "C10": {"obligations": c10_obligations, "jobs": 2, "assumptions": [KERNEL_ONLY],
            "outside_claim": ["what a storage READ failure does inside the callees of publish (only publish's own reaction to a failing callee is decided)", "the equality of the state after a later publish with the state of a run without the failure "
                              "(exercised by the native battery native_commitfail only when a counterexample has to be confirmed)", "partial database writes (the property's fault model is the commit write failing as a whole)"]},
    "C16": {"obligations": c16_obligations, "jobs": 2, "assumptions": [KERNEL_ONLY],
            "outside_claim": ["TimedCache itself: expiry, memory-pressure eviction, the cleaning thread, the never-expiring epoch slot", "batch_get, get_direct, the user-state queries", "sequences of operations: "
                              "each operation is decided on its own (a sequence is exercised only by the native battery native_cache when a counterexample has to be confirmed)"]},
    "C13": {"obligations": c13_obligations, "jobs": 2, "assumptions": [KERNEL_ONLY],
            "outside_claim": ["interleavings with publishes, the change poller, cache flushes; history generation re-reading the epoch record"]},
    "C11": {"obligations": c11_obligations, "jobs": 2, "assumptions": [KERNEL_ONLY],
            "outside_claim": ["crash-point enumeration over a real publish; commit_transaction; key_history's epoch filter"]},
    "C15": {"obligations": c15_obligations, "jobs": 2, "assumptions": [KERNEL_ONLY],
            "outside_claim": ["get_user_data / get_user_state_versions / batch_get / begin / commit / rollback (async manager code)"]},
    "C17": {
        "obligations": c17_obligations,
        "jobs": 8,
        "assumptions": ["Kani models the dev profile (overflow checks on)"],
        "outside_claim": ["lengths > 256 (except Ord)", "symbolic-length prefix/LCP beyond the stated bit widths",
                          "partition of the UNSORTED representation with more than one element (conditional pushes: CBMC out of memory)", "sets of more than 3 elements / labels wider than 8 bits"],
    },
    "C05": {
        "obligations": c05_obligations,
        "jobs": 14,
        "assumptions": [IDEAL_HASH, "honest tree = reference trie of kani_core::trie (oracle, spec of akd_core/src/lib.rs)"],
        "outside_claim": ["the server-side proof generators (async storage code)", "byte-level blake3 formulas"],
    },
}
