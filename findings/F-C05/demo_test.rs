//! Demonstration of F-C05 against the real code (real Azks, real blake3 configuration):
//! a non-membership proof anchored at a shallow ancestor verifies for a label that IS in the tree.
//! Place as akd/tests/verif_demo_c05.rs and run
//!   cargo test --offline -p akd --features public_tests,whatsapp_v1 --test verif_demo_c05
//! Fails on the tree before commit "fix: reject non-membership proofs whose anchor has a child
//! that is a prefix of the label", passes after it.
use akd::append_only_zks::{Azks, AzksParallelismConfig, InsertMode};
use akd::storage::manager::StorageManager;
use akd::storage::memory::AsyncInMemoryDatabase;
use akd::{AzksElement, AzksValue, NodeLabel};
use akd_core::hash::EMPTY_DIGEST;
use akd_core::verify::verify_nonmembership_for_tests_only;

type TC = akd::WhatsAppV1Configuration;

fn label(first: u8) -> NodeLabel {
    let mut v = [0u8; 32];
    v[0] = first;
    NodeLabel::new(v, 256)
}

#[tokio::test]
async fn shallow_anchor_nonmembership_of_present_leaf() {
    let db = StorageManager::new_no_cache(AsyncInMemoryDatabase::new());
    let mut azks = Azks::new::<TC, _>(&db).await.unwrap();
    // leaves 0000.., 0100.., 1000..: root children are the interior node "0" and the leaf 1000..
    let leaves: Vec<AzksElement> = [0x00u8, 0x40, 0x80]
        .iter()
        .map(|b| AzksElement { label: label(*b), value: AzksValue(EMPTY_DIGEST) })
        .collect();
    azks.batch_insert_nodes::<TC, _>(&db, leaves, InsertMode::Directory, AzksParallelismConfig::default())
        .await
        .unwrap();
    let root_hash = azks.get_root_hash::<TC, _>(&db).await.unwrap();

    // honest non-membership proof of the absent label 1100..: anchored at the root
    let mut proof = azks.get_non_membership_proof::<TC, _>(&db, label(0xC0)).await.unwrap();
    assert_eq!(proof.longest_prefix, NodeLabel::root());
    verify_nonmembership_for_tests_only::<TC>(root_hash, &proof).unwrap();

    // the leaf 0000.. is in the tree (its membership proof verifies) ...
    let mp = azks.get_membership_proof::<TC, _>(&db, label(0x00)).await.unwrap();
    akd_core::verify::verify_membership_for_tests_only::<TC>(root_hash, &mp).unwrap();
    // ... yet re-using the root-anchored proof for it must be rejected: the child "0" of the
    // anchor is a prefix of the label, so the root is not the deepest matching node.
    proof.label = label(0x00);
    assert!(
        verify_nonmembership_for_tests_only::<TC>(root_hash, &proof).is_err(),
        "non-membership proof anchored at a shallow ancestor verified for a label that is in the tree"
    );
}
