//! Demonstration of F-C05b against the real code: a membership proof with no sibling proofs
//! whose hash value is the root node's value verifies for ANY label, present or not.
use akd::append_only_zks::{Azks, AzksParallelismConfig, InsertMode};
use akd::storage::manager::StorageManager;
use akd::storage::memory::AsyncInMemoryDatabase;
use akd::{AzksElement, AzksValue, Configuration, Direction, MembershipProof, NodeLabel};
use akd_core::hash::EMPTY_DIGEST;
use akd_core::verify::verify_membership_for_tests_only;

type TC = akd::WhatsAppV1Configuration;

fn label(first: u8) -> NodeLabel {
    let mut v = [0u8; 32];
    v[0] = first;
    NodeLabel::new(v, 256)
}

#[tokio::test]
async fn membership_of_absent_label_with_root_value() {
    let db = StorageManager::new_no_cache(AsyncInMemoryDatabase::new());
    let mut azks = Azks::new::<TC, _>(&db).await.unwrap();
    let leaves: Vec<AzksElement> = [0x00u8, 0x40, 0x80]
        .iter()
        .map(|b| AzksElement { label: label(*b), value: AzksValue(EMPTY_DIGEST) })
        .collect();
    azks.batch_insert_nodes::<TC, _>(&db, leaves, InsertMode::Directory, AzksParallelismConfig::default())
        .await
        .unwrap();
    let root_hash = azks.get_root_hash::<TC, _>(&db).await.unwrap();

    // anyone holding one honest proof can compute the root node's value by folding it
    let honest = azks.get_membership_proof::<TC, _>(&db, label(0x00)).await.unwrap();
    verify_membership_for_tests_only::<TC>(root_hash, &honest).unwrap();
    let mut val = honest.hash_val;
    let mut lab = honest.label;
    for sp in honest.sibling_proofs.iter().rev() {
        let s = sp.siblings[0];
        val = match sp.direction {
            Direction::Left => TC::compute_parent_hash_from_children(&val, &lab.value::<TC>(), &s.value, &s.label.value::<TC>()),
            Direction::Right => TC::compute_parent_hash_from_children(&s.value, &s.label.value::<TC>(), &val, &lab.value::<TC>()),
        };
        lab = sp.label;
    }

    // 0xC0.. is NOT in the tree, yet this "membership proof" for it must not verify
    let forged = MembershipProof { label: label(0xC0), hash_val: val, sibling_proofs: vec![] };
    assert!(
        verify_membership_for_tests_only::<TC>(root_hash, &forged).is_err(),
        "membership proof without sibling proofs verified for a label that is not in the tree"
    );
}
