//! Demonstration of F-C13 against the real code: a reader instance whose cached epoch record has
//! fallen two epochs behind storage returns the root hash of ANOTHER epoch labelled with its own.
use akd::append_only_zks::AzksParallelismConfig;
use akd::directory::{Directory, ReadOnlyDirectory};
use akd::ecvrf::HardCodedAkdVRF;
use akd::storage::manager::StorageManager;
use akd::storage::memory::AsyncInMemoryDatabase;
use akd::{AkdLabel, AkdValue};
use std::time::Duration;

type TC = akd::WhatsAppV1Configuration;

#[tokio::test]
async fn lagging_reader_returns_wrong_epoch_hash() {
    let db = AsyncInMemoryDatabase::new();
    let vrf = HardCodedAkdVRF {};
    let writer = Directory::<TC, _, _>::new(StorageManager::new_no_cache(db.clone()), vrf.clone(), AzksParallelismConfig::default())
        .await
        .unwrap();
    let e1 = writer.publish(vec![(AkdLabel::from("a"), AkdValue::from("1"))]).await.unwrap();

    // reader over the same storage, object cache with a 5 ms item lifetime (the epoch record
    // is kept in the cache's never-expiring slot), no change poller running
    let reader_storage = StorageManager::new(db.clone(), Some(Duration::from_millis(5)), None, None);
    let reader = ReadOnlyDirectory::<TC, _, _>::new(reader_storage, vrf.clone(), AzksParallelismConfig::default())
        .await
        .unwrap();
    let r1 = reader.get_epoch_hash().await.unwrap();
    assert_eq!((r1.0, r1.1), (e1.0, e1.1));

    let e2 = writer.publish(vec![(AkdLabel::from("a"), AkdValue::from("2"))]).await.unwrap();
    let e3 = writer.publish(vec![(AkdLabel::from("a"), AkdValue::from("3"))]).await.unwrap();
    tokio::time::sleep(Duration::from_millis(50)).await;

    // the reader now lags two epochs: it may answer with an error, or with a pair the directory
    // really published -- never with a root hash labelled with the wrong epoch
    match reader.get_epoch_hash().await {
        Err(e) => { println!("reader error: {e:?}"); }
        Ok(got) => { println!("reader got epoch {} h1 {} h2 {} h3 {}", got.0, got.1 == e1.1, got.1 == e2.1, got.1 == e3.1);
            let published = [(e1.0, e1.1), (e2.0, e2.1), (e3.0, e3.1)];
            assert!(
                published.contains(&(got.0, got.1)),
                "reader returned epoch {} with a root hash that was published for another epoch (h1? {} h2? {} h3? {})",
                got.0, got.1 == e1.1, got.1 == e2.1, got.1 == e3.1
            );
        }
    }
}
